#!/bin/bash
# usage: try_mutant.sh <dir with patch.diff + meta.json> [tier]   -- applies the patch to /repo, runs the property's check, undoes it
D="$1"; TIER="${2:-quick}"
P=$(/venv/bin/python -c "import json,sys; print(json.load(open('$D/meta.json'))['property'])")
cd /repo || exit 9
git diff --quiet || { echo "repo dirty"; exit 9; }
git apply "$D/patch.diff" || { echo "patch does not apply"; exit 9; }
cd /verif
START=$(date +%s)
timeout 1500 ./vf check $P --tier $TIER > /tmp/try_mutant.log 2>&1
RC=$?
END=$(date +%s)
git -C /repo checkout -- .
echo "$D property=$P exit=$RC time=$((END-START))s $(grep -c '^VIOLATION' /tmp/try_mutant.log) violation lines"
grep -m2 -A1 "^VIOLATION" /tmp/try_mutant.log | cut -c1-300
grep -m2 "HARNESS-ERROR\|TRANSLATOR" /tmp/try_mutant.log | cut -c1-300
tail -1 /tmp/try_mutant.log | cut -c1-250
