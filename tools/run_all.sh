#!/bin/bash
# run every claimed check (quick by default) and print exit code + wall time; usage: run_all.sh [tier] [ids...]
TIER="${1:-quick}"; shift
IDS="$@"; [ -z "$IDS" ] && IDS=$(/venv/bin/python -c "import json; print(' '.join(c['property_id'] for c in json.load(open('/verif/MANIFEST.json'))['checks']))")
cd /verif
for c in $IDS; do
  S=$(date +%s); timeout 3600 ./vf check $c --tier $TIER > /tmp/run_all_$c.log 2>&1; RC=$?; E=$(date +%s)
  echo "$c exit=$RC wall=$((E-S))s $(grep -c '^VIOLATION' /tmp/run_all_$c.log) viol $(grep -c '^KNOWN-FINDING' /tmp/run_all_$c.log) known | $(tail -1 /tmp/run_all_$c.log | cut -c1-170)"
done
