#!/bin/bash
# confirm one agent-made mutant in a scratch worktree: demo passes without, fails with, pinned suite still passes with the change
# usage: confirm_mutant.sh <mutant dir> <worktree>
D="$1"; WT="$2"
cd "$WT" || exit 9
git checkout -q -- . ; git clean -fdq -e 'c_hydrodiy_*.c' >/dev/null 2>&1
for f in data/c_hydrodiy_data.c stat/c_hydrodiy_stat.c gis/c_hydrodiy_gis.c; do [ -f src/hydrodiy/$f ] || cp /repo/src/hydrodiy/$f src/hydrodiy/$f; done
B=$(mktemp -d /tmp/confirm_ext.XXXX)
/verif/tools/rebuild_ext.sh $B/clean "$WT" >/dev/null 2>&1
PYTHONPATH=$B/clean:$WT/src timeout 300 /venv/bin/python "$D/demo.py" >/dev/null 2>&1; R0=$?
git apply "$D/patch.diff" || { echo "$D: patch does not apply"; rm -rf $B; exit 9; }
/verif/tools/rebuild_ext.sh $B/mut "$WT" >/dev/null 2>&1
PYTHONPATH=$B/mut:$WT/src timeout 300 /venv/bin/python "$D/demo.py" >/dev/null 2>&1; R1=$?
S=$(timeout 900 /venv/bin/python /verif/tools/suite.py --rebuild --repo "$WT" 2>&1 | head -1)
git checkout -q -- . ; git clean -fdq -e 'c_hydrodiy_*.c' >/dev/null 2>&1
rm -rf $B
OK=no; [ "$R0" = "0" ] && [ "$R1" != "0" ] && echo "$S" | grep -q "missing 0" && OK=yes
echo "$D demo_without=$R0 demo_with=$R1 suite='$S' confirmed=$OK"
