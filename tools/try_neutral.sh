#!/bin/bash
# apply a behaviour-preserving patch in the scratch worktree and run the listed checks: every one must exit 0
D="$1"; shift; WT=/tmp/wt/eval
cd $WT && git checkout -q --detach $(git -C /repo rev-parse HEAD) && git checkout -q -- .
for f in data/c_hydrodiy_data.c stat/c_hydrodiy_stat.c gis/c_hydrodiy_gis.c; do cp -n /repo/src/hydrodiy/$f src/hydrodiy/$f; done
git apply "$D/patch.diff" || { echo "$D: patch does not apply"; exit 9; }
cd /verif; mkdir -p /tmp/eval_out
for P in "$@"; do
  S=$(date +%s)
  VERIF_REPO=$WT VF_EVIDENCE_DIR=/tmp/eval_out VF_REPLAY_DIR=/tmp/eval_out/replays timeout 1500 ./vf check $P --tier quick > /tmp/eval_out/n_$$.txt 2>&1; RC=$?
  echo "$(basename $D) $P exit=$RC $(( $(date +%s) - S ))s viol=$(grep -c '^VIOLATION' /tmp/eval_out/n_$$.txt) $(grep -m1 'HARNESS-ERROR\|TRANSLATOR' /tmp/eval_out/n_$$.txt | cut -c1-200)"
  [ $RC -ne 0 ] && grep -m1 -A1 '^VIOLATION' /tmp/eval_out/n_$$.txt | cut -c1-300
done
git -C $WT checkout -q -- .
