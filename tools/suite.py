#!/usr/bin/env python3
"""run the pinned suite (optionally with extension modules rebuilt from the current tree) and compare with BASELINE.json
usage: suite.py [--rebuild] [--repo DIR]"""
import json, os, subprocess, sys, tempfile, shutil, xml.etree.ElementTree as ET
repo = '/repo'
if '--repo' in sys.argv:
    repo = sys.argv[sys.argv.index('--repo') + 1]
base = json.load(open('/root/.vp/BASELINE.json'))
env = dict(os.environ)
tmp = tempfile.mkdtemp(prefix='suite_')
try:
    if '--rebuild' in sys.argv:
        subprocess.run([os.path.join(os.path.dirname(__file__), 'rebuild_ext.sh'), tmp, repo], check=True, stdout=subprocess.DEVNULL)
        env['PYTHONPATH'] = tmp + (':' + os.path.join(repo, 'src') if repo != '/repo' else '')
    elif repo != '/repo':
        env['PYTHONPATH'] = os.path.join(repo, 'src')
    xml = os.path.join(tmp, 'j.xml')
    r = subprocess.run(['/venv/bin/python', '-m', 'pytest', '-ra', '-q', '-p', 'no:cacheprovider', '--timeout=900',
                        '--continue-on-collection-errors', '--junitxml=' + xml], cwd=repo, env=env, capture_output=True, text=True)
    passed = set()
    for tc in ET.parse(xml).getroot().iter('testcase'):
        if not [c for c in tc if c.tag in ('failure', 'error', 'skipped')]:
            passed.add('%s::%s' % (tc.get('classname'), tc.get('name')))
    want = set(base['stable_pass'])
    missing = sorted(want - passed)
    print('passed %d, baseline stable_pass %d, missing %d' % (len(passed), len(want), len(missing)))
    for m in missing:
        print('  MISSING', m)
    sys.exit(1 if missing else 0)
finally:
    shutil.rmtree(tmp, ignore_errors=True)
