#!/bin/bash
# rebuild the three extension modules from the committed Cython output + current kernels into $1 (outside /repo)
# usage: rebuild_ext.sh <outdir> [repo] ; then PYTHONPATH=<outdir> puts them in front of /repo/src
set -e
OUT="$1"; REPO="${2:-/repo}"; S="$REPO/src/hydrodiy"
mkdir -p "$OUT"
PYINC=$(/venv/bin/python -c "import sysconfig; print(sysconfig.get_paths()['include'])")
NPINC=$(/venv/bin/python -c "import numpy; print(numpy.get_include())")
EXT=$(/venv/bin/python -c "import sysconfig; print(sysconfig.get_config_var('EXT_SUFFIX'))")
CF="-O1 -fPIC -shared -w -I$PYINC -I$NPINC ${EXTRA_CFLAGS:-}"
gcc $CF -I$S/data $S/data/c_hydrodiy_data.c $S/data/c_dateutils.c $S/data/c_qualitycontrol.c $S/data/c_dutils.c $S/data/c_var2h.c $S/data/c_baseflow.c -lm -o "$OUT/c_hydrodiy_data$EXT" &
gcc $CF -I$S/stat $S/stat/c_hydrodiy_stat.c $S/stat/c_crps.c $S/stat/c_dscore.c $S/stat/c_olsleverage.c $S/stat/c_armodels.c $S/stat/ADinf.c $S/stat/AnDarl.c $S/stat/c_andersondarling.c $S/stat/c_paretofront.c -lm -o "$OUT/c_hydrodiy_stat$EXT" &
gcc $CF -I$S/gis $S/gis/c_hydrodiy_gis.c $S/gis/c_grid.c $S/gis/c_catchment.c $S/gis/c_points_inside_polygon.c -lm -o "$OUT/c_hydrodiy_gis$EXT" &
wait
ls "$OUT"
