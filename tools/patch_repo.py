#!/usr/bin/env python3
"""byte-preserving search/replace in a repo file (many hydrodiy sources have CRLF line endings)
usage: patch_repo.py <file> <old-file> <new-file>   (old/new given with LF; converted to the file's convention)"""
import sys
p, oldf, newf = sys.argv[1:4]
s = open(p, 'rb').read()
nl = b'\r\n' if b'\r\n' in s else b'\n'
old = open(oldf, 'rb').read().replace(b'\r\n', b'\n').rstrip(b'\n').replace(b'\n', nl)
new = open(newf, 'rb').read().replace(b'\r\n', b'\n').rstrip(b'\n').replace(b'\n', nl)
n = s.count(old)
if n != 1:
    sys.exit('expected exactly one occurrence, found %d' % n)
open(p, 'wb').write(s.replace(old, new))
print('patched', p)
