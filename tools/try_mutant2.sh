#!/bin/bash
# like try_mutant.sh but on a scratch worktree (VERIF_REPO), so that /repo stays untouched: try_mutant2.sh <mutant dir> [tier]
D="$1"; TIER="${2:-quick}"; WT=${EVAL_WT:-/tmp/wt/eval}
P=$(/venv/bin/python -c "import json,sys; print(json.load(open('$D/meta.json'))['property'])")
[ -d $WT ] || git -C /repo worktree add -q --detach $WT HEAD
cd $WT && git checkout -q --detach $(git -C /repo rev-parse HEAD) && git checkout -q -- . 
for f in data/c_hydrodiy_data.c stat/c_hydrodiy_stat.c gis/c_hydrodiy_gis.c; do cp -n /repo/src/hydrodiy/$f src/hydrodiy/$f; done
git apply "$D/patch.diff" || { echo "$D: patch does not apply"; exit 9; }
cd /verif
mkdir -p ${EVAL_OUT:-/tmp/eval_out}
START=$(date +%s)
VERIF_REPO=$WT VF_EVIDENCE_DIR=${EVAL_OUT:-/tmp/eval_out} VF_REPLAY_DIR=${EVAL_OUT:-/tmp/eval_out}/replays timeout 1500 ./vf check $P --tier $TIER > ${EVAL_OUT:-/tmp/eval_out}/log_$$.txt 2>&1
RC=$?
END=$(date +%s)
git -C $WT checkout -q -- .
echo "$D property=$P exit=$RC time=$((END-START))s viol=$(grep -c '^VIOLATION' ${EVAL_OUT:-/tmp/eval_out}/log_$$.txt)"
grep -m1 -A1 "^VIOLATION" ${EVAL_OUT:-/tmp/eval_out}/log_$$.txt | tail -1 | cut -c1-260
grep -m2 "HARNESS-ERROR\|TRANSLATOR" ${EVAL_OUT:-/tmp/eval_out}/log_$$.txt | cut -c1-300
rm -f ${EVAL_OUT:-/tmp/eval_out}/log_$$.txt
