#!/usr/bin/env python3
"""regenerate /verif/MANIFEST.json from harness/registry.py"""
import json, os, sys
sys.path.insert(0, os.path.join(os.path.dirname(__file__), '..'))
from harness import registry as R

checks = []
for pid in R.ALL:
    c = R.CLAIMS.get(pid)
    if not c:
        continue
    checks.append(dict(
        property_id=pid,
        quick_cmd='./vf check %s --tier quick' % pid,
        thorough_cmd='./vf check %s --tier thorough' % pid,
        evidence_file='/verif/evidence/%s.json' % pid,
        replay_cmd_template='./vf replay {path}',
        engine=c['engine'],
        level_claimed=dict(category='other', text=c['text'], design_ref=c['ref']),
        level_note=c['note'],
        technique=c['technique']))
na = []
for pid in R.ALL:
    if pid in R.CLAIMS:
        continue
    na.append(dict(property_id=pid, reason=R.NOT_APPLICABLE.get(pid, R.PENDING)))
m = dict(
    version=1,
    setup_cmd='./vf setup',
    hooks=dict(guard='HYDRODIY_VERIF', enable='no hooks: kernels are analysed from source (clang IR) and Python modules are patched inside the check process',
               baseline_off_cmd='cd /repo && /venv/bin/python -m pytest -ra -q -p no:cacheprovider --timeout=900 --continue-on-collection-errors',
               source_commits=[], add_only=True),
    engines=[
        dict(name='llir', path='engine/llir', serves_properties=sorted(p for p, c in R.CLAIMS.items() if c['engine'] in ('llir', 'llir+pysym')),
             kind_free_text='path-based bounded symbolic interpreter for the LLVM IR of the C kernels over z3 (ints + overflow obligations, doubles as extended reals)'),
        dict(name='pysym', path='engine/pysym', serves_properties=sorted(p for p, c in R.CLAIMS.items() if 'pysym' in c['engine']),
             kind_free_text='symbolic execution of the real Python functions on numpy object arrays of z3-backed scalars'),
        dict(name='ch', path='engine/ch', serves_properties=sorted(p for p, c in R.CLAIMS.items() if 'ch' in c['engine'].split('+')),
             kind_free_text='CrossHair contract checking of hydrodiy.io pure-Python logic'),
    ],
    checks=checks,
    not_applicable=na,
    notes='Exit codes: 0 = every obligation within the stated bounds discharged or inconclusive (counted in the evidence), KNOWN-FINDING lines for '
          'listed findings; 1 = confirmed violation not listed; 2 = harness error. VERIF_REPO overrides the tree analysed (default /repo).')
p = os.path.join(os.path.dirname(__file__), '..', 'MANIFEST.json')
json.dump(m, open(p, 'w'), indent=1)
import jsonschema
jsonschema.validate(m, json.load(open('/root/.vp/MANIFEST.schema.json')))
print('MANIFEST.json written:', len(checks), 'checks,', len(na), 'not applicable/pending')
