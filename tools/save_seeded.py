#!/usr/bin/env python3
"""copy confirmed agent-made mutants into /verif/seeded/<id>/ with meta.json (property, what it needs, what was run, detection)"""
import json, os, shutil, sys, glob, re
DET = json.load(open('/verif/seeded/detection.json')) if os.path.exists('/verif/seeded/detection.json') else {}
conf = {}
for log in glob.glob('/tmp/wt_out/confirm*.log'):
    for ln in open(log):
        m = re.match(r'(\S+) demo_without=(\d+) demo_with=(\d+) suite=\'(.*?)\' confirmed=(\w+)', ln)
        if m:
            conf[m.group(1)] = dict(demo_without=int(m.group(2)), demo_with=int(m.group(3)), suite=m.group(4), confirmed=m.group(5) == 'yes')
for d in sorted(glob.glob('/tmp/wt_out/C*/m?')):
    c = conf.get(d)
    if not c or not c['confirmed']:
        continue
    prop, m = d.split('/')[-2:]
    sid = '%s-%s' % (prop, m)
    out = '/verif/seeded/%s' % sid
    os.makedirs(out, exist_ok=True)
    for f in ('patch.diff', 'demo.py'):
        shutil.copy(os.path.join(d, f), os.path.join(out, f))
    if os.path.exists(os.path.join(d, 'patch_orig.diff')):
        shutil.copy(os.path.join(d, 'patch_orig.diff'), os.path.join(out, 'patch_orig.diff'))
    meta = json.load(open(os.path.join(d, 'meta.json')))
    meta2 = dict(id=sid, property=prop, summary=meta.get('summary'), needs=meta.get('needs'), files=meta.get('files'),
                 origin='independent sub-agent given only the property text and a scratch worktree',
                 confirmed=dict(how='tools/confirm_mutant.sh in a scratch worktree: demo.py on the clean tree (exit %d), patch applied + extension '
                                    'modules rebuilt, demo.py again (exit %d), pinned suite with the change: %s' % (c['demo_without'], c['demo_with'], c['suite'])),
                 detection=DET.get(sid, {'status': 'not yet evaluated'}))
    json.dump(meta2, open(os.path.join(out, 'meta.json'), 'w'), indent=1)
print('saved', len([d for d in conf if conf[d]['confirmed']]))
