"""C01 — every data transform is invertible on its domain (engine B: the real forward/backward on symbolic scalars)."""
import math
import numpy as np
import z3
from engine.pysym import core
from engine.pysym.core import SR, assume, term
from engine.pysym.runner import Case, close, is_nan, run_cases
from engine.llir.xr import rv as q

BIG = 100.0


def modules():
    from hydrodiy.stat import transform
    from hydrodiy.data import containers, dutils
    return [transform, containers, dutils]


def make(clsname, ctor):
    from hydrodiy.stat import transform
    return getattr(transform, clsname)(**ctor)


def sym_vector(vec, prefix, lo_over=None, hi_over=None):
    """symbolic values for every entry of a real Vector, inside its declared bounds (infinite bounds capped at +-BIG)"""
    out = {}
    for i, n in enumerate(vec.names):
        v = SR(z3.Real('%s_%s' % (prefix, n)))
        lo, hi = float(vec.mins[i]), float(vec.maxs[i])
        lo = max(lo, -BIG) if not (lo_over and n in lo_over) else lo_over[n]
        hi = min(hi, BIG) if not (hi_over and n in hi_over) else hi_over[n]
        assume(z3.And(v.e >= term(lo), v.e <= term(hi)))
        out[str(n)] = v
    return out


def set_params(tr, P, C):
    if P:
        tr.params.values = [P[str(n)] for n in tr.params.names]
    if C:
        tr.constants.values = [C[str(n)] for n in tr.constants.names]


def L(t):
    return core.mk_log(t)


def E(t):
    return core.mk_exp(t)


def zabs(t):
    return z3.If(t >= 0, t, -t)


# domain of each transform (with the property's conditioning region), as constraints over the symbolic parameters and x
class _T:
    """view of a parameter dict whose entries may be symbolic (SR) or pinned concrete numbers: .e is always a z3 term"""
    def __init__(self, d):
        self.d = d

    def __contains__(self, k):
        return k in self.d

    def __getitem__(self, k):
        v = self.d[k]
        return v if isinstance(v, SR) else SR(term(v))


def pin_params(P, pin):
    for k, v in (pin or {}).items():
        if k in P:
            P[k] = float(v)
    return P


def domain(name, P, C, x, light=False):
    """domain of the transform + the conditioning region of C01.  light=True keeps only what the formulas need to be defined (x inside the
    domain, away from seams) and drops every restriction on the PARAMETERS beyond their declared bounds and the conditioning region:
    used to check that the declared bounds themselves keep the transform increasing"""
    x = x.e
    P, C = _T(P), _T(C)
    cs = [x >= -1000, x <= 1000]
    heavy = (lambda *c: []) if light else (lambda *c: list(c))
    if name == 'Logit':
        lower, delta = P['lower'].e, E(P['logdelta'].e)
        # exp(-10) and exp(10) bracket delta (true numeric facts the uninterpreted EXP does not know)
        cs += [x > lower + delta / 1000, x < lower + delta - delta / 1000, delta >= q(4.5e-5), delta <= 22027]
    elif name in ('Log', 'Reciprocal'):
        cs += [x + P['nu'].e >= q(0.001), x + P['nu'].e <= 1000]
    elif name in ('BoxCox2', 'BoxCox1lam', 'BoxCox1nu'):
        nu = (P['nu'] if 'nu' in P else C['nu']).e
        lam = (P['lam'] if 'lam' in P else C['lam']).e
        cs += [x + nu >= q(0.001), x + nu <= 1000] + heavy(zabs(lam * L(x + nu)) <= q(13.8))
    elif name == 'BoxCox2sym':
        nu, lam = P['nu'].e, P['lam'].e
        ax = zabs(x)
        cs += [ax >= q(0.001)] + heavy(nu >= q(0.001), zabs(lam * L(ax + nu)) <= q(13.8), zabs(lam * L(nu)) <= q(13.8))
    elif name == 'YeoJohnson':
        nu, sc, lam = P['nu'].e, P['scale'].e, P['lam'].e
        w = nu + sc * x
        cs += [z3.Or(w >= q(1e-6 + 1e-10), w <= -q(1e-6)), zabs(w) <= 1000] + heavy(
            sc >= q(0.001), zabs(lam * L(zabs(w) + 1)) <= q(13.8), zabs((2 - lam) * L(zabs(w) + 1)) <= q(13.8))
    elif name == 'LogSinh':
        a, b, xmax = E(P['loga'].e), E(P['logb'].e), C['xmax'].e
        w = a + b * x / xmax
        cs += [w >= q(0.0001), w <= 20] + heavy(xmax >= q(0.001), xmax <= 1000)
    elif name == 'Sinh':
        nu, sc = P['nu'].e, P['scale'].e
        cs += [zabs((x - nu) * sc) <= 1000] + heavy(sc >= q(0.001))
    elif name == 'Manly':
        lam, xmax = P['lam'].e, C['xmax'].e
        cs += heavy(z3.Or(lam == 0, zabs(lam) >= q(0.001)), xmax >= q(0.001), xmax <= 1000, zabs(lam * x / xmax) <= q(13.8))
    return cs


class RoundTrip(Case):
    prop = 'C01'
    functions = []

    def __init__(self, clsname, ctor=None, n=1, via_get=False, fresh_backward=False, pin=None):
        self.cls, self.ctor, self.n, self.via_get = clsname, dict(ctor or {}), n, via_get
        self.fresh_backward = fresh_backward
        self.pin = dict(pin or {})      # parameters / constants fixed to concrete values (the rest stays symbolic)
        self.name = 'roundtrip%s:%s%s%s%s' % ('-fresh-backward' if fresh_backward else '', clsname, '(%s)' % ','.join('%s=%s' % kv for kv in sorted(self.ctor.items())) if self.ctor else '',
                                           ':get_transform' if via_get else '', '[%s]' % ','.join('%s=%s' % kv for kv in sorted(self.pin.items())) if self.pin else '')
        self.params = dict(cls=clsname, ctor=self.ctor, n=n, via_get=via_get, fresh_backward=fresh_backward, pin=self.pin)
        self.functions = ['hydrodiy.stat.transform.%s.forward/backward/backward_censored' % clsname]

    def modules(self):
        return modules()

    def inputs(self):
        tr = make(self.cls, self.ctor)
        P = pin_params(sym_vector(tr.params, 'p'), self.pin)
        C = pin_params(sym_vector(tr.constants, 'c'), self.pin)
        if self.cls == 'Softmax':
            xs = [SR(z3.Real('x%d' % i)) for i in range(2)]
            for v in xs:
                assume(z3.And(v.e >= q(0.001), v.e <= 1))
            if self.pin.get('column'):
                # two compositions of ONE component each, shape (2, 1): every row has its own closure
                for v in xs:
                    assume(v.e <= q(0.999))
            else:
                assume(xs[0].e + xs[1].e <= q(0.999))
        else:
            xs = [SR(z3.Real('x%d' % i)) for i in range(self.n)]
            for v in xs:
                for c in domain(self.cls, P, C, v):
                    assume(c)
        return dict(P=P, C=C, x=xs)

    def run(self, I):
        from hydrodiy.stat import transform
        if self.via_get:
            kw = dict(self.ctor)
            kw.update(I['P'])
            kw.update(I['C'])
            tr = transform.get_transform(self.cls, **kw)
        else:
            tr = make(self.cls, self.ctor)
            set_params(tr, I['P'], I['C'])
        sym = any(isinstance(v, SR) for v in I['x'])
        if self.cls == 'Softmax':
            shp = (2, 1) if self.pin.get('column') else (1, 2)
            x = core.symarray(I['x']).reshape(shp) if sym else np.array(I['x'], dtype=float).reshape(shp)
        else:
            x = core.symarray(I['x']) if sym else np.array(I['x'], dtype=float)
        y = tr.forward(x)
        if self.fresh_backward:
            # backward on a second, freshly built object whose first call is backward (state must not depend on call order)
            if self.via_get:
                tr2 = transform.get_transform(self.cls, **kw)
            else:
                tr2 = make(self.cls, self.ctor)
                set_params(tr2, I['P'], I['C'])
            b = tr2.backward(y)
        else:
            b = tr.backward(y)
        yy = tr.forward(b)
        out = dict(y=list(np.asarray(y, dtype=object).flat), b=list(np.asarray(b, dtype=object).flat),
                   yy=list(np.asarray(yy, dtype=object).flat))
        if self.cls != 'Softmax':
            censor = I['x'][0]
            bc = tr.backward_censored(y, censor)
            out['bc'] = list(np.asarray(bc, dtype=object).flat)
        return out

    def spec(self, I, O, err):
        res = [('no-exception', err is None)]
        if err is not None:
            return res
        xs = I['x']
        for i, x in enumerate(xs):
            res.append(('forward-finite[%d]' % i, not is_nan(O['y'][i])))
            res.append(('backward(forward(x))=x[%d]' % i, (not is_nan(O['b'][i])) and close(O['b'][i], x, self.tol)))
            res.append(('forward(backward(y))=y[%d]' % i, (not is_nan(O['yy'][i])) and close(O['yy'][i], O['y'][i], self.tol)))
        if 'bc' in O:
            c = xs[0]
            for i in range(len(xs)):
                v = O['bc'][i]
                res.append(('backward_censored>=censor[%d]' % i, (not is_nan(v)) and (v >= c if not isinstance(v, float) else v >= c - 1e-9 * max(1, abs(c)))))
            # a value at or above the censoring threshold comes back as itself (here the threshold is the first value, so this holds for it)
            res.append(('backward_censored(forward(x),censor=x)=x', (not is_nan(O['bc'][0])) and close(O['bc'][0], c, self.tol)))
        return res


def cases(tier):
    out = []
    names = ['Identity', 'Logit', 'Log', 'BoxCox2', 'BoxCox1lam', 'BoxCox1nu', 'BoxCox2sym', 'YeoJohnson', 'LogSinh', 'Reciprocal', 'Softmax',
             'Sinh', 'Manly']
    for n in names:
        out.append(RoundTrip(n))
    for n in ('BoxCox1lam', 'BoxCox1nu', 'BoxCox2sym', 'Log', 'Sinh'):
        out.append(RoundTrip(n, fresh_backward=True))
    # non-default constructor options
    out += [RoundTrip('Log', dict(base=10.0)), RoundTrip('Log', dict(mininu=0.5)), RoundTrip('BoxCox2', dict(minilam=-1.0)),
            RoundTrip('BoxCox2', dict(mininu=0.25)), RoundTrip('BoxCox1nu', dict(minilam=-1.0)), RoundTrip('BoxCox2sym', dict(minilam=-1.0)),
            RoundTrip('Reciprocal', dict(mininu=0.5)), RoundTrip('BoxCox2', via_get=True), RoundTrip('Log', dict(base=2.0), via_get=True),
            # a = b = 1 exactly: the domain guard of LogSinh is then decided in linear arithmetic (no EXP abstraction in the way)
            RoundTrip('LogSinh', pin=dict(loga=0.0, logb=0.0)), RoundTrip('Softmax', pin=dict(column=1))]
    # exponents pinned to the branch values and to values whose reciprocal is exact in binary (no EXP-abstraction slack, every label is decided)
    out += [RoundTrip('YeoJohnson', pin=dict(lam=l)) for l in (0.0, 1.0, 2.0)]
    out += [RoundTrip('BoxCox2', pin=dict(lam=l)) for l in (-1.0, 0.0, 0.5, 1.0, 2.0)]
    out += [RoundTrip('BoxCox2sym', pin=dict(lam=l)) for l in (0.0, 0.5)] + [RoundTrip('Manly', pin=dict(lam=l)) for l in (0.0, 1.0, -2.0)]
    if tier == 'thorough':
        out += [RoundTrip(n, n=2) for n in names if n != 'Softmax']
        out += [RoundTrip('BoxCox1lam', dict(minilam=-1.0)), RoundTrip('YeoJohnson', via_get=True), RoundTrip('Log', dict(base=0.5))]
    return out


def part(tier, seed, workdir):
    return run_cases('C01', cases(tier), tier, seed)


FAMILIES = []
PARTS = [part]
META = dict(
    explanation='the real Transform classes are constructed by their real constructors, their parameters and constants set through the real Vector '
                'setters to SYMBOLIC values over the whole declared interval, and the real public forward / backward / backward_censored (incl. '
                'dutils.cast) are executed on numpy object arrays of symbolic scalars; every comparison the code makes forks the path, and on each '
                'feasible path z3 decides backward(forward(x)) = x, forward(backward(forward(x))) = forward(x), finiteness and backward_censored >= censor '
                'in exact real arithmetic with EXP/LOG uninterpreted + sound ground axioms',
    bounds=['13 transform classes, default constructor options plus a list of non-default ones (mininu, minilam, base), get_transform(name, **params) '
            'for two classes; 1-element arrays (thorough 2; Softmax one row of 2); parameters over their whole declared interval (infinite bounds capped '
            'at +-100); x in the domain within the property\'s conditioning region'],
    outside=['floating-point conditioning (exact reals; candidates are replayed on the real float code with the 1e-6 relative tolerance)',
             'points within 1e-6 of the internal seam of Yeo-Johnson', 'arrays longer than the bound'],
    assumptions=['EXP/LOG uninterpreted with ground instances of: positivity, inverse laws, monotonicity, tangent bounds, additive law',
                 'pow(a,b) = EXP(b*LOG(a)) for a > 0'],
    stubs=['numpy module global replaced by a thin proxy for isnan/isclose/where/clip/astype(float)/float64/maximum/sign (no object-dtype loop)'],
)
