"""C04 — deterministic and categorical skill scores equal their definitions (engine B)."""
import math
import types
import numpy as np
import z3
from engine.pysym import core
from engine.pysym.core import SR, assume, term
from engine.pysym.runner import Case, close, is_nan, run_cases, unwrap
from engine.llir.xr import rv as q
from harness.C01 import make, sym_vector, set_params, domain


def modules():
    from hydrodiy.stat import transform, metrics
    from hydrodiy.data import containers, dutils
    return [metrics, transform, containers, dutils]


def msum(xs):
    r = xs[0]
    for v in xs[1:]:
        r = r + v
    return r


def mmean(xs):
    return msum(xs) / len(xs)


def msqrt(v):
    return v.sqrt() if isinstance(v, SR) else math.sqrt(v)


def ref_scores(to, ts):
    """textbook definitions on the (already transformed, already filtered) series"""
    mo, ms = mmean(to), mmean(ts)
    sse = msum([(s - o) * (s - o) for o, s in zip(to, ts)])
    sso = msum([(mo - o) * (mo - o) for o in to])
    so = msqrt(sso / len(to))
    ss = msqrt(msum([(ms - s) * (ms - s) for s in ts]) / len(ts))
    cov = msum([(o - mo) * (s - ms) for o, s in zip(to, ts)]) / len(to)
    return dict(mo=mo, ms=ms, sse=sse, sso=sso, so=so, ss=ss, cov=cov)


class Score(Case):
    prop = 'C04'
    tol = 1e-6

    def __init__(self, fn, trans, n, excludenull=False, nanpos=None, extra=None, variant='', members=1, pin=None):
        self.fn, self.trans, self.n, self.excl, self.nanpos, self.extra, self.variant = fn, trans, n, excludenull, nanpos, dict(extra or {}), variant
        self.pin = pin      # dict(obs=[...], sim=[...]) with None for the entries that stay symbolic (a lower-dimensional slice of the input space)
        self.members = members      # corr only: ensemble members per time step (the score uses the median / mean of the TRANSFORMED members)
        self.name = 'score:%s:%s:n%d%s%s%s%s' % (fn, trans, n, ':excludenull' if excludenull else '', ':nan@%s' % (nanpos,) if nanpos else '',
                                               ':' + ','.join('%s=%s' % kv for kv in sorted(self.extra.items())) if self.extra else '',
                                               ':' + variant if variant else '') + (':members=%d' % members if members > 1 else '') + (':slice' if pin else '')
        self.params = dict(fn=fn, trans=trans, n=n, excludenull=excludenull, nanpos=nanpos, extra=self.extra, variant=variant, members=members, pin=pin)
        self.functions = ['hydrodiy.stat.metrics.%s' % fn]

    def modules(self):
        return modules()

    def inputs(self):
        tr = make(self.trans, {})
        P = sym_vector(tr.params, 'p')
        C = sym_vector(tr.constants, 'c')
        obs, sim = [], []
        for i in range(self.n):
            o, s = SR(z3.Real('o%d' % i)), SR(z3.Real('s%d' % i))
            for v in (o, s):
                for c in domain(self.trans, P, C, v):
                    assume(c)
                assume(z3.And(v.e >= -50, v.e <= 50))
            obs.append(o)
            if self.members > 1:
                row = [s]
                for k in range(1, self.members):
                    v = SR(z3.Real('s%d_%d' % (i, k)))
                    for c in domain(self.trans, P, C, v):
                        assume(c)
                    assume(z3.And(v.e >= -50, v.e <= 50))
                    row.append(v)
                sim.append(row)
            else:
                sim.append(s)
        if self.variant == 'perfect':
            sim = list(obs)
        if self.variant == 'outdomain':
            # one simulated value outside the transform's domain (log of a negative number): the transform turns it into NaN, and with
            # excludenull that pair is incomplete like any other
            v = SR(z3.Real('s_out'))
            nu = (P['nu'] if 'nu' in P else C['nu'])
            assume(z3.And(v.e >= -50, v.e + nu.e <= -q(0.001)))
            sim[0] = v
        if self.pin:
            for i, v in enumerate(self.pin.get('obs', [])):
                if v is not None:
                    obs[i] = float(v)
            for i, v in enumerate(self.pin.get('sim', [])):
                if v is not None:
                    sim[i] = [float(x) for x in v] if isinstance(v, (list, tuple)) else float(v)
        return dict(P=P, C=C, obs=obs, sim=sim)

    def series(self, I):
        obs, sim = list(I['obs']), list(I['sim'])
        if self.nanpos:
            which, pos = self.nanpos
            (obs if which == 'obs' else sim)[pos] = np.nan
        return obs, sim

    def run(self, I):
        from hydrodiy.stat import metrics
        tr = make(self.trans, {})
        set_params(tr, I['P'], I['C'])
        obs, sim = self.series(I)
        flat = obs + [v for r in sim for v in (r if isinstance(r, list) else [r])]
        sym = any(isinstance(v, SR) for v in flat)
        mk = (lambda xs: core.symarray(xs)) if sym else (lambda xs: np.array(xs, dtype=float))
        if self.members > 1:
            def mk2(rows):
                if not sym:
                    return np.array(rows, dtype=float)
                a = np.empty((len(rows), self.members), dtype=object)
                for i, r in enumerate(rows):
                    for k, v in enumerate(r):
                        a[i, k] = v
                return a.view(core.SymArray)
        calls = []
        old = metrics.spearmanr
        if sym:
            def sp(a, b):
                v = SR(core.fresh_real('spearman'))
                calls.append((list(np.asarray(a, dtype=object).flat), list(np.asarray(b, dtype=object).flat), v))
                return types.SimpleNamespace(correlation=v)
            metrics.spearmanr = sp
        else:
            def sp(a, b):
                r = old(a, b)
                calls.append((list(np.asarray(a, dtype=float).flat), list(np.asarray(b, dtype=float).flat), float(r.correlation)))
                return r
            metrics.spearmanr = sp
        try:
            f = getattr(metrics, self.fn)
            if self.fn == 'corr' and self.members > 1:
                val = f(mk(obs), mk2(sim), trans=tr, excludenull=self.excl, **self.extra)
            elif self.fn == 'corr':
                ens = mk(sim).reshape(-1, 1)
                val = f(mk(obs), ens, trans=tr, excludenull=self.excl, **self.extra)
            else:
                val = f(mk(obs), mk(sim), trans=tr, excludenull=self.excl, **self.extra)
        finally:
            metrics.spearmanr = old
        # transformed series for the reference (the real forward again: its correctness is C01's subject)
        to = list(np.asarray(tr.forward(mk(obs)), dtype=object).flat)
        if self.members > 1:
            # the ensemble statistic is taken over the TRANSFORMED members (2 members: median = mean)
            tens = np.asarray(tr.forward(mk2(sim)), dtype=object)
            ts = [sum(list(tens[i])[1:], tens[i][0]) / self.members for i in range(len(sim))]
        else:
            ts = list(np.asarray(tr.forward(mk(sim)), dtype=object).flat)
        return dict(val=unwrap(val), to=to, ts=ts, calls=calls)

    def spec(self, I, O, err):
        res = [('no-exception', err is None)]
        if err is not None:
            return res
        val = O['val']
        pairs = [(o, s) for o, s in zip(O['to'], O['ts']) if not (is_nan(o) or is_nan(s))]
        hasnan = len(pairs) < len(O['to'])
        if hasnan and not self.excl:
            return res + [('nan-propagates-without-excludenull', is_nan(val))]
        to, ts = [p[0] for p in pairs], [p[1] for p in pairs]
        if len(to) < 2:
            return res
        R = ref_scores(to, ts)
        fn = self.fn
        # the property is stated for non-degenerate series: observed mean and standard deviations away from zero (and the
        # denominators of the normalised / log bias away from zero)
        def AND(a, b):
            return (a & b) if not (isinstance(a, (bool, np.bool_)) and isinstance(b, (bool, np.bool_))) else (a and b)
        nd = AND(abs(R['mo']) >= 1e-3, R['so'] >= 1e-3)
        if fn in ('kge', 'corr'):
            nd = AND(nd, R['ss'] >= 1e-3)
        if fn == 'bias' and self.extra.get('type') == 'normalised':
            nd = AND(nd, abs(R['ms'] + R['mo']) >= 1e-3)
        if fn == 'bias' and self.extra.get('type') == 'log':
            nd = AND(AND(nd, R['mo'] >= 1e-3), R['ms'] >= 1e-3)
        def IMP(c):
            # nd -> c
            if isinstance(nd, (bool, np.bool_)):
                return c if nd else True
            if isinstance(c, (bool, np.bool_)):
                return True if c else ~nd
            return ~nd | c
        if is_nan(val):
            return res + [('no-nan-for-non-degenerate-series', IMP(False))]
        res0 = len(res)
        if fn == 'bias':
            t = self.extra.get('type', 'standard')
            if t == 'standard':
                res.append(('bias=(ms-mo)/mo', close(val * R['mo'], R['ms'] - R['mo'], self.tol)))
            elif t == 'normalised':
                res.append(('bias=(ms-mo)/(ms+mo)', close(val * (R['ms'] + R['mo']), R['ms'] - R['mo'], self.tol)))
            else:
                e = val.exp() if isinstance(val, SR) else math.exp(val)
                res.append(('bias=log(ms)-log(mo)', close(e * R['mo'], R['ms'], self.tol)))
            if self.variant == 'perfect':
                res.append(('perfect-simulation-bias-0', close(val, 0.0, self.tol)))
        elif fn == 'nse':
            res.append(('nse=1-sse/sso', close((1 - val) * R['sso'], R['sse'], self.tol)))
            res.append(('nse<=1', val <= 1 + 1e-9 if not isinstance(val, SR) else val <= 1))
            if self.variant == 'perfect':
                res.append(('perfect-simulation-nse-1', close(val, 1.0, self.tol)))
        elif fn == 'kge':
            r = R['cov'] / (R['so'] * R['ss'])
            d2 = (1 - R['ms'] / R['mo']) ** 2 + (1 - R['ss'] / R['so']) ** 2 + (1 - r) ** 2
            res.append(('kge=1-sqrt(...)', close((1 - val) * (1 - val), d2, self.tol) & (val <= 1) if isinstance(val, SR) else (
                close((1 - val) ** 2, d2, 1e-5) and val <= 1 + 1e-9)))
            if self.variant == 'perfect':
                res.append(('perfect-simulation-kge-1', close(val, 1.0, self.tol)))
        elif fn == 'corr':
            if self.extra.get('type', 'Pearson') == 'Pearson':
                r = R['cov'] / (R['so'] * R['ss'])
                res.append(('corr=pearson', close(val, r, self.tol)))
            elif not O['calls']:
                res.append(('spearman-delegated-to-scipy', False))
            elif O['calls']:
                a, b, v = O['calls'][-1]
                okargs = len(a) == len(to) and len(b) == len(ts)
                for x, y in zip(a, to):
                    okargs = okargs & close(x, y) if not isinstance(okargs, bool) or not isinstance(close(x, y), bool) else (okargs and close(x, y))
                for x, y in zip(b, ts):
                    okargs = okargs & close(x, y) if not isinstance(okargs, bool) or not isinstance(close(x, y), bool) else (okargs and close(x, y))
                res.append(('spearman-on-transformed-filtered-series', okargs))
                res.append(('corr=spearman-result', close(val, v)))
        return res[:res0] + [(l, IMP(c)) for l, c in res[res0:]]


COUNT_MAX = 10 ** 6     # counts per cell of the 2x2 table


class Binary(Case):
    """every binary score equals its contingency-table definition for all positive counts"""
    prop = 'C04'
    name = 'binary'
    functions = ['hydrodiy.stat.metrics.binary']
    params = None

    def modules(self):
        from hydrodiy.stat import metrics
        return [metrics]

    def inputs(self):
        cnt = {}
        for k in ('TN', 'FP', 'FN', 'TP'):
            v = SR(z3.Real(k))
            assume(z3.And(v.e >= 1, v.e <= COUNT_MAX, z3.IsInt(v.e)))
            cnt[k] = v
        return cnt

    def run(self, I):
        from hydrodiy.stat import metrics
        sym = isinstance(I['TN'], SR)
        if sym:
            mat = np.empty((2, 2), dtype=object)
            mat[0, 0], mat[0, 1], mat[1, 0], mat[1, 1] = I['TN'], I['FP'], I['FN'], I['TP']
            mat = mat.view(core.SymArray)
        else:
            mat = [[int(I['TN']), int(I['FP'])], [int(I['FN']), int(I['TP'])]]
        scores, rand = metrics.binary(mat)
        return dict(scores=scores, rand=rand)

    def spec(self, I, O, err):
        res = [('no-exception', err is None)]
        if err is not None:
            return res
        TN, FP, FN, TP = I['TN'], I['FP'], I['FN'], I['TP']
        s = O['scores']
        n = TN + FP + FN + TP
        H, F = TP / (TP + FN), FP / (FP + TN)
        theta = (TP * TN) / (FP * FN)
        defs = {'hitrate': H, 'falsealarm': F, 'precision': TP / (TP + FP), 'accuracy': (TP + TN) / n, 'bias': (TP + FP) / (TP + FN),
                'F1': 2 * TP / (2 * TP + FP + FN), 'ORSS': (theta - 1) / (theta + 1)}
        for k, d in defs.items():
            res.append(('%s=definition' % k, (not is_nan(s[k])) and close(s[k], d, self.tol)))
        den = (TP + FP) * (TP + FN) * (TN + FP) * (TN + FN)
        mcc = s['MCC']
        res.append(('MCC=definition', (not is_nan(mcc)) and ((close(mcc * mcc * den, (TP * TN - FP * FN) * (TP * TN - FP * FN), 1e-5) and ((mcc >= 0) == (TP * TN >= FP * FN) or abs(mcc) < 1e-9)) if not isinstance(mcc, SR)
                                                              else (mcc * mcc * den == (TP * TN - FP * FN) * (TP * TN - FP * FN)) & ((mcc >= 0) == (TP * TN >= FP * FN)))))
        lor = s['LOR']
        if is_nan(lor):
            res.append(('LOR=log(theta)', False))
        else:
            e = lor.exp() if isinstance(lor, SR) else math.exp(lor)
            res.append(('LOR=log(theta)', close(e, theta, 1e-5 if not isinstance(lor, SR) else 0)))
        return res


# a 2-dimensional slice of the 3 x 2 ensemble (two time steps concrete): models are found and refuted quickly also under the LOG abstraction
SLICE = dict(obs=[1.0, 2.0, 4.0], sim=[[1.0, 3.0], [2.0, 2.5], None])


def cases(tier):
    out = []
    trs = ['Identity', 'Log'] if tier == 'quick' else ['Identity', 'Log', 'BoxCox2', 'Reciprocal', 'Sinh']
    for tr in trs:
        for n in ((2, 3) if tier == 'quick' else (2, 3, 4)):
            if tr != 'Identity' and n > 2 and tier == 'quick':
                continue
            out += [Score('bias', tr, n), Score('bias', tr, n, extra=dict(type='normalised')), Score('nse', tr, n), Score('corr', tr, n)]
            if n <= 3:
                out += [Score('kge', tr, n)]
        out += [Score('bias', tr, 2, extra=dict(type='log')), Score('corr', tr, 2, extra=dict(type='Spearman')),
                Score('corr', tr, 2, extra=dict(stat='mean')), Score('corr', tr, 3, members=2), Score('corr', tr, 3, extra=dict(stat='mean'), members=2),
                Score('corr', tr, 3, members=2, pin=SLICE), Score('corr', tr, 3, extra=dict(stat='mean'), members=2, pin=SLICE),
                Score('nse', tr, 3, excludenull=True, nanpos=('obs', 1)), Score('nse', tr, 3, excludenull=True, nanpos=('sim', 2)),
                Score('bias', tr, 3, excludenull=True, nanpos=('sim', 2)), Score('bias', tr, 3, excludenull=True, nanpos=('obs', 0)),
                Score('corr', tr, 3, excludenull=True, nanpos=('sim', 1)),
                Score('kge', tr, 3, excludenull=True, nanpos=('sim', 0)), Score('nse', tr, 3, excludenull=False, nanpos=('sim', 0)),
                Score('nse', tr, 2, variant='perfect'), Score('bias', tr, 2, variant='perfect'), Score('kge', tr, 2, variant='perfect')]
        if tr in ('Log', 'BoxCox2'):
            out += [Score(fn, tr, 3, excludenull=True, variant='outdomain') for fn in ('bias', 'nse', 'kge', 'corr')]
    out.append(Binary())
    return out


def part(tier, seed, workdir):
    return run_cases('C04', cases(tier), tier, seed)


FAMILIES = []
PARTS = [part]
META = dict(
    explanation='the real metrics.bias / nse / kge / corr are executed on symbolic observed and simulated series with a real transform object whose '
                'parameters are symbolic; numpy mean/sum/std run on the object arrays, np.corrcoef is its defining formula, spearmanr an '
                'uninterpreted stub whose ARGUMENTS are checked; on every path z3 decides that the score equals the textbook definition applied to '
                'trans.forward(obs), trans.forward(sim) with incomplete pairs removed, that NaN is returned only under the documented guards, that '
                'nse <= 1 and perfect simulations score 0/1/1.  binary(conf_mat) on a symbolic 2x2 table of positive integer counts: each score equals its '
                'contingency-table definition for ALL counts, i.e. odds ratios below, at and above 1',
    bounds=['series of length 2-3 (thorough 4); transforms Identity, Log (thorough + BoxCox2, Reciprocal, Sinh) at symbolic admissible parameters; '
            'excludenull with a concrete NaN at a chosen position; |values| <= 50; counts 1..10000'],
    outside=['confusion_matrix (pandas crosstab)', 'Spearman rank correlation internals (scipy)', 'ensemble median beyond two columns',
             'floating-point rounding (exact reals; candidates replayed on the float code)'],
    assumptions=['np.corrcoef(a,b)[0,1] = cov/(std*std)', 'EXP/LOG/sqrt axioms as in C01'],
    stubs=['scipy.stats.spearmanr: arbitrary value, arguments recorded and checked'],
)
