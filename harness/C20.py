"""C20 — sampling / ranking / summaries: pareto_front kernel (engine A); ppos, lhs, percentile levels (engine B, see PARTS)."""
from engine.llir.harness import Family, Scalar, Buf, sym_kernel, nat_kernel
from engine.ops import *


def pf_args(n, m, orient, data):
    return [Scalar('i32', n), Scalar('i32', m), Scalar('i32', orient), Buf('data', 'double', data),
            Buf('isdominated', 'i32', [0] * n, out=True)]


def dominated_ref(n, m, orient, data, i):
    """another point strictly better in every coordinate where both are non-missing"""
    def better(j):
        conds = []
        for k in range(m):
            a, b = data[m * j + k], data[m * i + k]
            miss = b_or(fisnan(a), fisnan(b))
            conds.append(b_or(miss, fgt(fmul(float(orient), fsub(a, b)), 0.0)))
        return b_and(*conds)
    return exists(better(j) for j in range(n) if j != i)


class Pareto(Family):
    prop = 'C20'
    name = 'pareto_front'
    pkg = 'stat'
    kernel = 'c_paretofront'
    srcfile = 'stat/c_paretofront.c'

    def instances(self, tier):
        shapes = [(0, 2), (1, 1), (1, 2), (2, 1), (2, 2), (3, 1), (3, 2), (4, 1)] + ([(4, 2), (3, 3), (2, 3), (5, 1)] if tier == 'thorough' else [])
        return [dict(n=n, m=m, orient=o, nan=nan) for n, m in shapes for o in (1, -1) for nan in (False, True) if not (nan and n * m > 8)]

    def cost(self, inst):
        return (3 if inst['nan'] else 2) ** (inst['n'] * inst['m'])

    def inputs(self, inst, S):
        return dict(data=[S.real('d%d' % i, nan=inst['nan']) for i in range(inst['n'] * inst['m'])])

    def args(self, inst, I):
        return pf_args(inst['n'], inst['m'], inst['orient'], I['data'])

    def spec(self, inst, I, O):
        n, m, o = inst['n'], inst['m'], inst['orient']
        dom = O['isdominated']
        res = [('ret0', O['ret'] == 0), ('data-unchanged', forall(fsame(a, b) for a, b in zip(O['data'], I['data'])))]
        for i in range(n):
            res.append(('dominated-iff[%d]' % i, dom[i] == iite(dominated_ref(n, m, o, I['data'], i), 1, 0)))
        if n > 0:
            complete = forall(b_not(fisnan(v)) for v in I['data'])
            res.append(('front-nonempty', b_implies(complete, exists(d == 0 for d in dom))))
        return res


class ParetoReverse(Family):
    """reversing the orientation equals negating the data"""
    prop = 'C20'
    name = 'pareto_reverse'
    pkg = 'stat'
    kernel = 'c_paretofront'
    srcfile = 'stat/c_paretofront.c'

    def instances(self, tier):
        return [dict(n=n, m=m) for n, m in ([(2, 1), (2, 2), (3, 1), (3, 2)] + ([(4, 2), (3, 3)] if tier == 'thorough' else []))]

    def cost(self, inst):
        return 4 ** (inst['n'] * inst['m'])

    def inputs(self, inst, S):
        return dict(data=[S.real('d%d' % i, nan=(i % 2 == 0)) for i in range(inst['n'] * inst['m'])])

    def execute(self, ex, path, inst, I, srcfile):
        n, m = inst['n'], inst['m']
        O1 = sym_kernel(ex, path, 'c_paretofront', pf_args(n, m, -1, I['data']), srcfile)
        O2 = sym_kernel(ex, path, 'c_paretofront', pf_args(n, m, 1, [fneg(v) for v in I['data']]), srcfile)
        return {'ret': O1['ret'], 'a': O1['isdominated'], 'b': O2['isdominated']}

    def native(self, ctx, inst, Ic):
        n, m = inst['n'], inst['m']
        n1, O1, t1 = nat_kernel(ctx, 'stat', 'c_paretofront', pf_args(n, m, -1, Ic['data']))
        n2, O2, t2 = nat_kernel(ctx, 'stat', 'c_paretofront', pf_args(n, m, 1, [-v for v in Ic['data']]))
        st = n1 if n1['status'] != 'ok' else n2
        return st, {'ret': O1.get('ret'), 'a': O1.get('isdominated'), 'b': O2.get('isdominated')}, t1 + t2

    def spec(self, inst, I, O):
        return [('reverse=negate[%d]' % i, O['a'][i] == O['b'][i]) for i in range(inst['n'])]


FAMILIES = [Pareto(), ParetoReverse()]
PARTS = []

META = dict(
    explanation='engine A: bounded symbolic execution of the LLVM IR of c_paretofront with symbolic coordinates (finite or NaN) and both '
                'orientations: a point is flagged dominated iff another point is strictly better in every coordinate where both are non-missing; '
                'complete data always leave a non-dominated point; reversing the orientation equals negating the data (two runs composed)',
    bounds=['pareto_front: (points x dims) up to 3x2 and 4x1 quick, + 4x2, 3x3, 2x3, 5x1 thorough; NaN kinds symbolic up to 8 coordinates'],
    outside=['standard_normal (pandas rank, norm.ppf)', 'boxplot_stats / Boxplot.stats / Violin (nanpercentile, groupby, KDE)'],
    assumptions=['doubles as exact reals + NaN flag'],
    stubs=[],
)


# ------------------------------------------------------------------------------------------------ engine B parts (ppos, lhs, box-plot levels)
import numpy as _np
import z3 as _z3
from engine.pysym import core as _core
from engine.pysym.core import SR as _SR, assume as _assume
from engine.pysym.runner import Case as _Case, close as _close, is_nan as _is_nan, run_cases as _run_cases
from engine.llir.xr import rv as _q


def _conj(cs):
    r = True
    for c in cs:
        if isinstance(c, (bool, _np.bool_)):
            if not c:
                return False
            continue
        r = c if r is True else (r & c)
    return r


def _impl(a, b):
    if isinstance(a, (bool, _np.bool_)):
        return b if a else True
    if isinstance(b, (bool, _np.bool_)):
        return True if b else ~a
    return ~a | b


class Ppos(_Case):
    prop = 'C20'

    def __init__(self, n):
        self.n = n
        self.name = 'ppos:n%d' % n
        self.params = dict(n=n)
        self.functions = ['hydrodiy.stat.sutils.ppos']

    def modules(self):
        from hydrodiy.stat import sutils
        return [sutils]

    def inputs(self):
        c = _SR(_z3.Real('cst'))
        _assume(_z3.And(c.e >= -1, c.e <= 2))
        return dict(cst=c)

    def run(self, I):
        from hydrodiy.stat import sutils
        try:
            p = sutils.ppos(self.n, I['cst'])
        except ValueError:
            return dict(raised=True, p=None)
        return dict(raised=False, p=list(_np.asarray(p, dtype=object).flat))

    def spec(self, I, O, err):
        res = [('no-unexpected-exception', err is None)]
        if err is not None:
            return res
        c = I['cst']
        valid = (c >= 0) & (c <= 0.5) if isinstance(c, _SR) else (0 <= c <= 0.5)
        if O['raised']:
            return res + [('only-invalid-constants-rejected', ~valid if not isinstance(valid, (bool, _np.bool_)) else (not valid))]
        p, n = O['p'], self.n
        res.append(('valid-constant-accepted', valid))
        res.append(('length', len(p) == n))
        res.append(('in-(0,1)', _conj([(v > 0) & (v < 1) if isinstance(v, _SR) else 0 < v < 1 for v in p])))
        res.append(('strictly-increasing', _conj([p[i] < p[i + 1] for i in range(n - 1)])))
        res.append(('symmetric-about-0.5', _conj([_close(p[i] + p[n - 1 - i], 1.0, 1e-12) for i in range(n)])))
        return res


class Lhs(_Case):
    prop = 'C20'
    time_budget = {'quick': 90, 'thorough': 400}

    def __init__(self, nsamples, nparams):
        self.ns, self.np_ = nsamples, nparams
        self.name = 'lhs:n%d:p%d' % (nsamples, nparams)
        self.params = dict(nsamples=nsamples, nparams=nparams)
        self.functions = ['hydrodiy.stat.sutils.lhs']

    def modules(self):
        from hydrodiy.stat import sutils
        return [sutils]

    def inputs(self):
        lo, hi = [], []
        for i in range(self.np_):
            a, w = _SR(_z3.Real('pmin%d' % i)), _SR(_z3.Real('width%d' % i))
            _assume(_z3.And(a.e >= -1000, a.e <= 1000, w.e >= _q(0.001), w.e <= 1000))
            lo.append(a)
            hi.append(a + w)
        return dict(pmin=lo, pmax=hi)

    def run(self, I):
        from hydrodiy.stat import sutils
        sym = any(isinstance(v, _SR) for v in I['pmin'])
        mk = _core.symarray if sym else (lambda xs: _np.array(xs, dtype=float))
        s = sutils.lhs(self.ns, mk(I['pmin']), mk(I['pmax']))
        return dict(samples=[[s[k, i] for k in range(self.ns)] for i in range(self.np_)])

    def spec(self, I, O, err):
        res = [('no-exception', err is None)]
        if err is not None:
            return res
        n = self.ns
        for i in range(self.np_):
            lo, hi = I['pmin'][i], I['pmax'][i]
            w = (hi - lo) / n
            col = O['samples'][i]
            for k in range(n):
                a, b = lo + w * k, lo + w * (k + 1)
                tol = 1e-9 * max(1.0, abs(a), abs(b)) if not isinstance(a, _SR) else 0
                inside = [((v >= a - tol) & (v <= b + tol)) if isinstance(v, _SR) else (a - tol <= v <= b + tol) for v in col]
                # exactly one point in stratum k (points on a shared edge are attributed by the strict side below)
                strict = [((v > a) & (v < b)) if isinstance(v, _SR) else (a < v < b) for v in col]
                cnt_in = sum([(_z3.If(c.e, 1, 0) if hasattr(c, 'e') else int(bool(c))) for c in inside])
                cnt_strict = sum([(_z3.If(c.e, 1, 0) if hasattr(c, 'e') else int(bool(c))) for c in strict])
                res.append(('one-point-per-stratum[p%d,s%d]' % (i, k), _core.sb(_z3.And(cnt_in >= 1, cnt_strict <= 1)) if _z3.is_expr(cnt_in) or _z3.is_expr(cnt_strict)
                            else (cnt_in >= 1 and cnt_strict <= 1)))
            res.append(('within-range[p%d]' % i, _conj([((v >= lo) & (v <= hi)) if isinstance(v, _SR) else (lo - 1e-9 <= v <= hi + 1e-9) for v in col])))
        return res


class BoxStats(_Case):
    """boxplot_stats: statistics of the finite values only, at percentile levels ordered whisker-low <= box-low <= 50 <= box-high <= whisker-high"""
    prop = 'C20'

    def __init__(self, n, special, box=50.0, whis=90.0):
        self.n, self.special, self.box, self.whis = n, dict(special), box, whis
        self.name = 'boxplot_stats:n%d:%s:%g/%g' % (n, ','.join('%s@%d' % (v, k) for k, v in sorted(self.special.items())) or 'finite', box, whis)
        self.params = dict(n=n, special=self.special, box=box, whis=whis)
        self.functions = ['hydrodiy.plot.boxplot.boxplot_stats', 'hydrodiy.plot.boxplot.compute_percentiles']

    def modules(self):
        from hydrodiy.plot import boxplot
        return [boxplot]

    def inputs(self):
        xs = []
        for i in range(self.n):
            v = _SR(_z3.Real('d%d' % i))
            _assume(_z3.And(v.e >= -1000, v.e <= 1000))
            xs.append(v)
        return dict(x=xs)

    def data(self, I):
        vals = list(I['x'])
        for k, v in self.special.items():
            vals[int(k)] = {'nan': _np.nan, 'inf': _np.inf, '-inf': -_np.inf}[v]
        return vals

    def run(self, I):
        from hydrodiy.plot import boxplot
        vals = self.data(I)
        sym = any(isinstance(v, _SR) for v in vals)
        calls = []
        old = boxplot.np.nanpercentile if not sym else None
        if sym:
            def npct(a, q, *aa, **kk):
                calls.append((list(_np.asarray(a, dtype=object).flat), list(q)))
                return _np.array([0.0] * len(q))
            _core.NPX.nanpercentile = npct
        else:
            import numpy as real_np
            orig = real_np.nanpercentile

            def npct(a, q, *aa, **kk):
                calls.append((list(_np.asarray(a, dtype=float).flat), list(q)))
                return orig(a, q, *aa, **kk)
            boxplot.np.nanpercentile = npct
        try:
            arr = _core.symarray(vals) if sym else _np.array(vals, dtype=float)
            st = boxplot.boxplot_stats(arr, self.box, self.whis)
        finally:
            if sym:
                del _core.NPX.nanpercentile
            else:
                boxplot.np.nanpercentile = orig
        return dict(count=st['count'], mean=st.get('mean'), min=st.get('min'), max=st.get('max'), calls=calls)

    def spec(self, I, O, err):
        res = [('no-exception', err is None)]
        if err is not None:
            return res
        vals = self.data(I)
        fin = [v for v in vals if isinstance(v, _SR) or (_np.isfinite(v))]
        res.append(('count=number-of-finite-values', int(O['count']) == len(fin)))
        if len(fin) <= 3:
            return res + [('no-percentiles-below-4-values', len(O['calls']) == 0)]
        res.append(('percentiles-requested-once', len(O['calls']) == 1))
        if O['calls']:
            a, q = O['calls'][0]
            ok = len(a) == len(fin)
            if ok:
                ok = _conj([_close(x, y, 0.0 if isinstance(x, _SR) or isinstance(y, _SR) else 1e-12) for x, y in zip(a, fin)])
            res.append(('percentiles-of-the-finite-values-only', ok))
            res.append(('levels-ordered-around-the-median', len(q) == 5 and q[0] <= q[1] <= 50 <= q[3] <= q[4] and q[2] == 50 and
                        abs(q[1] - (100 - self.box) / 2) < 1e-9 and abs(q[0] - (100 - self.whis) / 2) < 1e-9 and abs(q[1] + q[3] - 100) < 1e-9 and
                        abs(q[0] + q[4] - 100) < 1e-9))
        tot = fin[0]
        for v in fin[1:]:
            tot = tot + v
        res.append(('mean-of-finite-values', _close(O['mean'] * len(fin), tot, 1e-9)))
        res.append(('min-max-of-finite-values', _conj([(O['min'] <= v) & (O['max'] >= v) if isinstance(v, _SR) or isinstance(O['min'], _SR) else (O['min'] <= v <= O['max']) for v in fin])))
        return res


_PPF = _z3.Function('NORM_PPF', _z3.RealSort(), _z3.RealSort())


def avg_rank(xs, i):
    """1-based average rank of xs[i]: #{smaller} + (#{equal} + 1) / 2 (what pandas.Series.rank(method='average') returns for NaN-free data)"""
    if not any(isinstance(v, _SR) for v in xs):
        return sum(1 for v in xs if v < xs[i]) + (sum(1 for v in xs if v == xs[i]) + 1) / 2.0
    t = lambda v: v.e if isinstance(v, _SR) else _core.term(v)
    less = sum(_z3.If(t(v) < t(xs[i]), _z3.RealVal(1), _z3.RealVal(0)) for v in xs)
    eq = sum(_z3.If(t(v) == t(xs[i]), _z3.RealVal(1), _z3.RealVal(0)) for v in xs)
    return _SR(less + (eq + 1) / 2)


class _RankStub:
    """stands for pandas on the symbolic path: Series(x).rank(method='average') is the counting formula (validated against the real pandas in
    the concrete scenario below and on every replay)"""
    class Series:
        def __init__(self, x):
            self.x = list(_np.asarray(x, dtype=object).flat)

        def rank(self, method='average'):
            if method != 'average':
                raise _core.Unsupported('rank method %r' % method)
            return _core.symarray([avg_rank(self.x, i) for i in range(len(self.x))])


class _NormStub:
    """scipy.stats.norm on the symbolic path: ppf is an uninterpreted strictly increasing function on (0, 1)"""
    def __init__(self):
        self.args = []

    def ppf(self, q):
        out = []
        for v in _np.asarray(q, dtype=object).flat:
            t = v.e if isinstance(v, _SR) else _core.term(v)
            r = _PPF(t)
            for (u, ru) in self.args:
                _assume(_z3.And((t < u) == (r < ru), (t == u) == (r == ru)))
            self.args.append((t, r))
            out.append(_SR(r))
        return _core.symarray(out)


class StdNormal(_Case):
    """sutils.standard_normal: ranks = average ranks of the data, scores = norm.ppf of the plotting positions of the ranks (hence a strictly
    increasing function of the ranks, equal for tied values)"""
    prop = 'C20'

    def __init__(self, n):
        self.n = n
        self.name = 'standard_normal:n%d' % n
        self.params = dict(n=n)
        self.functions = ['hydrodiy.stat.sutils.standard_normal']

    def modules(self):
        from hydrodiy.stat import sutils
        return [sutils]

    def inputs(self):
        xs = []
        for i in range(self.n):
            v = _SR(_z3.Real('x%d' % i))
            _assume(_z3.And(v.e >= -100, v.e <= 100))
            xs.append(v)
        c = _SR(_z3.Real('cst'))
        _assume(_z3.And(c.e >= 0, c.e <= _q(0.5)))
        return dict(x=xs, cst=c)

    def run(self, I):
        from hydrodiy.stat import sutils
        sym = any(isinstance(v, _SR) for v in I['x'])
        if not sym:
            u, r = sutils.standard_normal(_np.array(I['x'], dtype=float), cst=float(I['cst']))
            return dict(u=[float(v) for v in u], r=[float(v) for v in r], q=None)
        old_pd, old_norm = sutils.pd, sutils.norm
        stub = _NormStub()
        sutils.pd, sutils.norm = _RankStub, stub
        try:
            u, r = sutils.standard_normal(_core.symarray(I['x']), cst=I['cst'])
        finally:
            sutils.pd, sutils.norm = old_pd, old_norm
        return dict(u=list(_np.asarray(u, dtype=object).flat), r=list(_np.asarray(r, dtype=object).flat), q=[a for a, _ in stub.args])

    def spec(self, I, O, err):
        res = [('no-exception', err is None)]
        if err is not None:
            return res
        xs, n, c = I['x'], self.n, I['cst']
        sym = any(isinstance(v, _SR) for v in xs)
        want = [avg_rank(xs, i) - 1 for i in range(n)]
        res.append(('ranks=average-ranks-of-the-data', _conj([_close(O['r'][i], want[i], 1e-9) for i in range(n)])))
        if sym:
            # the scores are ppf of the plotting positions of those ranks
            okq = len(O['q']) == n
            res.append(('scores=ppf((rank+1-cst)/(n+1-2cst))', okq and _conj([_core.sb(O['q'][i] * (n + 1 - 2 * c.e) == (want[i].e + 1 - c.e)) for i in range(n)])))
        else:
            from scipy.stats import norm
            res.append(('scores=ppf((rank+1-cst)/(n+1-2cst))', all(abs(O['u'][i] - norm.ppf((want[i] + 1 - c) / (n + 1 - 2 * c))) <= 1e-9 for i in range(n))))
        for i in range(n):
            for j in range(i + 1, n):
                a, b = xs[i], xs[j]
                lt = (a < b) if sym else bool(a < b)
                eq = (a == b) if sym else bool(a == b)
                ui, uj = O['u'][i], O['u'][j]
                res.append(('score-order=data-order[%d,%d]' % (i, j), _conj([_impl(lt, ui < uj), _impl(eq, _close(ui, uj, 1e-12)), _impl(b < a if sym else bool(b < a), uj < ui)])))
        return res


def cases(tier):
    out = [StdNormal(n) for n in ((2, 3) if tier == 'quick' else (2, 3, 4))]
    out += [Ppos(n) for n in ((1, 2, 3, 6) if tier == 'quick' else (1, 2, 3, 4, 6, 9, 12))]
    out += [Lhs(2, 1), Lhs(3, 1), Lhs(2, 2), Lhs(3, 2)] + ([Lhs(4, 1), Lhs(4, 2)] if tier == 'thorough' else [])
    out += [BoxStats(5, {}), BoxStats(5, {0: 'nan'}), BoxStats(5, {2: 'inf'}), BoxStats(6, {1: '-inf', 4: 'nan'}), BoxStats(4, {3: 'inf'}),
            BoxStats(5, {}, box=40.0, whis=99.0)]
    return out


def part_python(tier, seed, workdir):
    return _run_cases('C20', cases(tier), tier, seed)


def validate_rank_model(tier):
    """the counting formula that stands for pandas.Series.rank(method='average') on the symbolic path equals the real pandas on every vector
    of length <= 5 over {0, 1, 2} (all tie patterns), and the real norm.ppf is strictly increasing on a grid (the two facts the stubs assume)"""
    import itertools
    import pandas as pd
    from scipy.stats import norm
    bad = []
    for n in range(1, 6):
        for xs in itertools.product((0.0, 1.0, 2.0), repeat=n):
            got = [avg_rank(list(xs), i) for i in range(n)]
            if got != list(pd.Series(xs).rank(method='average')):
                bad.append(xs)
    out = [('rank-model=pandas', not bad, dict(mismatches=bad[:3]))]
    g = _np.linspace(0.001, 0.999, 999)
    out.append(('norm.ppf-strictly-increasing', bool(_np.all(_np.diff(norm.ppf(g)) > 0)), {}))
    return out


CONTRACTS = [validate_rank_model]


def contracts_part(tier, seed, workdir):
    from engine.contracts import run_contracts
    return run_contracts('C20', 'harness.C20', CONTRACTS, tier)


PARTS = [part_python, contracts_part]
META['explanation'] += ('; engine B: the real sutils.ppos (symbolic plotting constant), sutils.lhs (symbolic ranges, every permutation explored, jitter an arbitrary '
                        'value of its range) and boxplot.boxplot_stats (symbolic values with NaN / +-inf at chosen positions, numpy.nanpercentile replaced by a '
                        'recording stub) are executed on symbolic scalars and z3 decides: plotting positions strictly increasing in (0,1) and symmetric, one '
                        'sample per stratum of every parameter, statistics computed from the finite values only at ordered levels')
META['bounds'] += ['ppos: n in {1,2,3,6} (thorough up to 12), constant symbolic in [-1,2] (rejection outside [0,0.5])', 'lhs: 2-3 samples x 1-2 parameters '
                   '(thorough 4), ranges symbolic with width in [1e-3,1e3]', 'boxplot_stats: 4-6 values, listed NaN/inf positions, coverages 50/90 and 40/99']
META['outside'] = ['standard_normal with sorted=True or another rank method; pandas rank and scipy norm.ppf themselves (stubs: counting formula validated against pandas on all tie patterns up to length 5, ppf an uninterpreted increasing function)', 'the percentile values themselves (numpy.nanpercentile is a stub whose arguments are checked)',
                   'Boxplot(...).stats group-by / pivot (pandas)', 'Violin (KDE)']
META['stubs'] = ['np.random.permutation: all permutations by forking', 'np.random.uniform: arbitrary value in range', 'np.nanpercentile: recording stub']
