"""C20 — sampling / ranking / summaries: pareto_front kernel (engine A); ppos, lhs, percentile levels (engine B, see PARTS)."""
from engine.llir.harness import Family, Scalar, Buf, sym_kernel, nat_kernel
from engine.ops import *


def pf_args(n, m, orient, data):
    return [Scalar('i32', n), Scalar('i32', m), Scalar('i32', orient), Buf('data', 'double', data),
            Buf('isdominated', 'i32', [0] * n, out=True)]


def dominated_ref(n, m, orient, data, i):
    """another point strictly better in every coordinate where both are non-missing"""
    def better(j):
        conds = []
        for k in range(m):
            a, b = data[m * j + k], data[m * i + k]
            miss = b_or(fisnan(a), fisnan(b))
            conds.append(b_or(miss, fgt(fmul(float(orient), fsub(a, b)), 0.0)))
        return b_and(*conds)
    return exists(better(j) for j in range(n) if j != i)


class Pareto(Family):
    prop = 'C20'
    name = 'pareto_front'
    pkg = 'stat'
    kernel = 'c_paretofront'
    srcfile = 'stat/c_paretofront.c'

    def instances(self, tier):
        shapes = [(0, 2), (1, 1), (1, 2), (2, 1), (2, 2), (3, 1), (3, 2), (4, 1)] + ([(4, 2), (3, 3), (2, 3), (5, 1)] if tier == 'thorough' else [])
        return [dict(n=n, m=m, orient=o, nan=nan) for n, m in shapes for o in (1, -1) for nan in (False, True) if not (nan and n * m > 8)]

    def cost(self, inst):
        return (3 if inst['nan'] else 2) ** (inst['n'] * inst['m'])

    def inputs(self, inst, S):
        return dict(data=[S.real('d%d' % i, nan=inst['nan']) for i in range(inst['n'] * inst['m'])])

    def args(self, inst, I):
        return pf_args(inst['n'], inst['m'], inst['orient'], I['data'])

    def spec(self, inst, I, O):
        n, m, o = inst['n'], inst['m'], inst['orient']
        dom = O['isdominated']
        res = [('ret0', O['ret'] == 0), ('data-unchanged', forall(fsame(a, b) for a, b in zip(O['data'], I['data'])))]
        for i in range(n):
            res.append(('dominated-iff[%d]' % i, dom[i] == iite(dominated_ref(n, m, o, I['data'], i), 1, 0)))
        if n > 0:
            complete = forall(b_not(fisnan(v)) for v in I['data'])
            res.append(('front-nonempty', b_implies(complete, exists(d == 0 for d in dom))))
        return res


class ParetoReverse(Family):
    """reversing the orientation equals negating the data"""
    prop = 'C20'
    name = 'pareto_reverse'
    pkg = 'stat'
    kernel = 'c_paretofront'
    srcfile = 'stat/c_paretofront.c'

    def instances(self, tier):
        return [dict(n=n, m=m) for n, m in ([(2, 1), (2, 2), (3, 1), (3, 2)] + ([(4, 2), (3, 3)] if tier == 'thorough' else []))]

    def cost(self, inst):
        return 4 ** (inst['n'] * inst['m'])

    def inputs(self, inst, S):
        return dict(data=[S.real('d%d' % i, nan=(i % 2 == 0)) for i in range(inst['n'] * inst['m'])])

    def execute(self, ex, path, inst, I, srcfile):
        n, m = inst['n'], inst['m']
        O1 = sym_kernel(ex, path, 'c_paretofront', pf_args(n, m, -1, I['data']), srcfile)
        O2 = sym_kernel(ex, path, 'c_paretofront', pf_args(n, m, 1, [fneg(v) for v in I['data']]), srcfile)
        return {'ret': O1['ret'], 'a': O1['isdominated'], 'b': O2['isdominated']}

    def native(self, ctx, inst, Ic):
        n, m = inst['n'], inst['m']
        n1, O1, t1 = nat_kernel(ctx, 'stat', 'c_paretofront', pf_args(n, m, -1, Ic['data']))
        n2, O2, t2 = nat_kernel(ctx, 'stat', 'c_paretofront', pf_args(n, m, 1, [-v for v in Ic['data']]))
        st = n1 if n1['status'] != 'ok' else n2
        return st, {'ret': O1.get('ret'), 'a': O1.get('isdominated'), 'b': O2.get('isdominated')}, t1 + t2

    def spec(self, inst, I, O):
        return [('reverse=negate[%d]' % i, O['a'][i] == O['b'][i]) for i in range(inst['n'])]


FAMILIES = [Pareto(), ParetoReverse()]
PARTS = []

META = dict(
    explanation='engine A: bounded symbolic execution of the LLVM IR of c_paretofront with symbolic coordinates (finite or NaN) and both '
                'orientations: a point is flagged dominated iff another point is strictly better in every coordinate where both are non-missing; '
                'complete data always leave a non-dominated point; reversing the orientation equals negating the data (two runs composed)',
    bounds=['pareto_front: (points x dims) up to 3x2 and 4x1 quick, + 4x2, 3x3, 2x3, 5x1 thorough; NaN kinds symbolic up to 8 coordinates'],
    outside=['standard_normal (pandas rank, norm.ppf)', 'boxplot_stats / Boxplot.stats / Violin (nanpercentile, groupby, KDE)'],
    assumptions=['doubles as exact reals + NaN flag'],
    stubs=[],
)
