"""C14 — var2h is the exact period average of the piecewise-linear interpolant (engine A, XR; bilinear value x time)."""
from fractions import Fraction
import z3
from engine.llir.harness import Family, Scalar, Buf
from engine.ops import *


def zmax(a, b):
    if not z3.is_expr(a) and not z3.is_expr(b):
        return max(a, b)
    return z3.If(a >= b, a, b)


def zmin(a, b):
    if not z3.is_expr(a) and not z3.is_expr(b):
        return min(a, b)
    return z3.If(a <= b, a, b)


def stamps(I):
    ts = [I['t0']]
    for d in I['dts']:
        ts.append(ts[-1] + d)
    return ts


class Var2h(Family):
    prop = 'C14'
    name = 'var2h'
    pkg = 'data'
    kernel = 'c_var2h'
    srcfile = 'data/c_var2h.c'
    time_budget = {'quick': 200, 'thorough': 2400}
    tol = 1e-7

    def instances(self, tier):
        out = []
        nobs = [2, 3] if tier == 'quick' else [2, 3, 4]
        for n in nobs:
            for P in (3600, 1800):
                for rain in (0, 1):
                    for nvalh in ((2, 3) if tier == 'quick' else (2, 3, 4)):
                        if n == 4 and nvalh == 4:
                            continue
                        out.append(dict(nobs=n, period=P, rainfall=rain, nvalh=nvalh))
        if tier == 'quick':
            # the smallest shape in which two observations can share a time stamp strictly inside an integrated period
            out += [dict(nobs=4, period=3600, rainfall=1, nvalh=2), dict(nobs=4, period=3600, rainfall=0, nvalh=2)]
        return out

    def cost(self, inst):
        return 5 ** inst['nobs'] * inst['nvalh'] * (2 - inst['rainfall'])

    def inputs(self, inst, S):
        n, P, nvalh = inst['nobs'], inst['period'], inst['nvalh']
        # integer-second stamps: first one anywhere in the hour before the origin, then non-negative increments
        # (real-valued stand-ins for the integer seconds: a superset, which keeps the queries in pure nonlinear real arithmetic)
        t0 = z3.Real('t0')
        S.assume(z3.And(t0 >= 0, t0 <= 3599))
        ts = [t0]
        dts = []
        for k in range(1, n):
            d = z3.Real('dt%d' % k)
            S.assume(z3.And(d >= 0, d <= 5 * 3600, z3.Or(d == 0, d >= 1)))   # consequence of integrality
            dts.append(d)
            ts.append(ts[-1] + d)
        for t in ts:
            for j in range(nvalh + 1):
                B = 3600 + j * P
                S.assume(z3.Or(t == B, t >= B + 1, t <= B - 1))               # consequence of integrality
        span = ts[-1] - t0
        # the wrapper sizes the output as int(span / period)
        S.assume(z3.And(span >= nvalh * P, span < (nvalh + 1) * P))
        # the series extends beyond the origin hour (otherwise the kernel's initial scan runs off the buffer: memory-safety
        # finding handled under C05, not a statement about the averages)
        S.assume(ts[-1] > 3600)
        vals = []
        for k in range(n):
            v = S.real('v%d' % k, -100, 100, nan=True)
            # values are non-negative, clearly negative, or missing (the kernel's own threshold is -1e-8)
            S.assume(z3.Or(v.num >= 0, v.num <= -Fraction(1, 10 ** 6)))
            vals.append(v)
        return dict(t0=t0, dts=dts, vals=vals, maxgap=S.int('maxgapsec', 3600, 10 * 86400))

    def fixup(self, inst, Ic):
        Ic['t0'] = int(round(Ic['t0']))
        Ic['dts'] = [int(round(d)) for d in Ic['dts']]
        return Ic

    def args(self, inst, I):
        n = inst['nobs']
        # hstart = first whole hour after the first observation's hour = 3600 for t0 in [0,3600)
        return [Scalar('i32', n), Scalar('i32', inst['nvalh']), Scalar('i32', inst['period']), Scalar('i32', inst['rainfall']), Scalar('i32', 0),
                Scalar('i32', I['maxgap']), Buf('varsec', 'i64', stamps(I)), Buf('varvalues', 'double', I['vals']), Scalar('i64', 3600),
                Buf('hvalues', 'double', [float('nan')] * inst['nvalh'], out=True)]

    def spec(self, inst, I, O):
        n, P, nvalh, rain = inst['nobs'], inst['period'], inst['nvalh'], inst['rainfall']
        ts, vals, maxgap = stamps(I), I['vals'], I['maxgap']
        h = O['hvalues']
        res = [('ret0', O['ret'] == 0), ('final-period-missing', fisnan(h[nvalh - 1])),
               ('values-unchanged', forall(fsame(a, b) for a, b in zip(O['varvalues'], vals))),
               ('stamps-unchanged', forall(a == b for a, b in zip(O['varsec'], ts)))]
        for i in range(nvalh - 1):
            s = 3600 + i * P
            e = s + P
            invalid_overlap, invalid_touch = [], []
            total = 0.0
            for k in range(n - 1):
                a, b = zmax(ts[k], s), zmin(ts[k + 1], e)
                ov = b - a
                bad = b_or(fisnan(vals[k]), fisnan(vals[k + 1]), flt(vals[k], 0.0), flt(vals[k + 1], 0.0), ts[k + 1] - ts[k] > maxgap)
                invalid_overlap.append(b_and(ov > 0, bad))
                invalid_touch.append(b_and(ov >= 0, ts[k] < e, bad))   # starts before the period end and reaches its start
                dt = tor(ts[k + 1] - ts[k])
                if rain:
                    contrib = fdiv(fmul(vals[k + 1], tor(ov)), dt)
                else:
                    slope = fdiv(fsub(vals[k + 1], vals[k]), dt)
                    va = fadd(vals[k], fmul(slope, tor(a - ts[k])))
                    vb = fadd(vals[k], fmul(slope, tor(b - ts[k])))
                    contrib = fmul(fmul(fadd(va, vb), tor(ov)), Fraction(1, 2))
                pos = ov > 0
                total = fadd(total, fite(pos, contrib, 0.0))
            covered = ts[n - 1] >= e
            anybad = exists(invalid_overlap)
            anytouch = exists(invalid_touch)
            res.append(('missing-if-invalid-interval-overlaps[%d]' % i, b_implies(anybad, fisnan(h[i]))))
            res.append(('present-if-all-valid[%d]' % i, b_implies(b_and(covered, b_not(anytouch)), b_not(fisnan(h[i])))))
            res.append(('missing-if-period-not-covered[%d]' % i, b_implies(b_not(covered), fisnan(h[i]))))
            expect = total if rain else fmul(total, Fraction(1, P))
            res.append(('period-average[%d]' % i, b_implies(b_and(covered, b_not(fisnan(h[i]))), fsame(h[i], expect, self.tol))))
        return res


def wrapper_var2h(tier):
    """dutils.var2h hands the kernel the wall-clock epoch seconds of the index whatever its storage resolution (s/ms/us/ns) and time zone,
    the first whole hour after the first stamp as origin, nvalh = int(span/period) and a NaN-filled output of that length"""
    import numpy as np
    import pandas as pd
    from hydrodiy.data import dutils as D
    from engine.contracts import Recorder, patched_module
    out = []
    stamps = ['2001-03-04 05:10:00', '2001-03-04 06:40:30', '2001-03-04 09:00:00', '2001-03-04 11:59:59']
    want = [int((pd.Timestamp(t) - pd.Timestamp('1970-01-01')).total_seconds()) for t in stamps]
    hstart = int((pd.Timestamp('2001-03-04 06:00:00') - pd.Timestamp('1970-01-01')).total_seconds())
    vals = [1.0, 2.0, np.nan, 4.0]
    for unit in ('ns', 'us', 'ms', 's'):
        for tz in (None, 'Australia/Brisbane', 'UTC', 'America/Lima'):
            idx = pd.DatetimeIndex(stamps).as_unit(unit)
            if tz is not None:
                idx = idx.tz_localize(tz)
            se = pd.Series(vals, index=idx)
            for period in (3600, 1800):
                rec = Recorder()
                with patched_module(D, 'c_hydrodiy_data', rec):
                    try:
                        res = D.var2h(se, nbsec_per_period=period, maxgapsec=7200, rainfall=True)
                    except Exception as e:
                        out.append(('wrapper-runs', False, dict(unit=unit, tz=tz, period=period, error=repr(e))))
                        continue
                c = rec.calls[-1]
                tag = dict(unit=unit, tz=tz, period=period)
                span = want[-1] - want[0]
                out.append(('time-stamps-in-wall-clock-seconds', list(map(int, c.args[5])) == want, dict(tag, got=list(map(int, c.args[5]))[:2], want=want[:2])))
                out.append(('origin=first-whole-hour-after-first-stamp', int(c.args[1]) == hstart, dict(tag, got=int(c.args[1]), want=hstart)))
                out.append(('scalars', int(c.args[0]) == 7200 and int(c.args[2]) == period and int(c.args[3]) == 1, tag))
                out.append(('values-passed', np.array_equal(c.args[6], np.array(vals), equal_nan=True), tag))
                out.append(('output-length=int(span/period)-filled-with-nan', len(c.args[7]) == span // period and bool(np.all(np.isnan(c.args[7]))), dict(tag, got=len(c.args[7]))))
                out.append(('result-index', len(res) == span // period and res.index[0] == pd.Timestamp('2001-03-04 06:00:00'), tag))
    # every observation reaches the kernel, in order: repeated stamps with different values (a step in the record), NaN and zero values
    dstamps = ['2001-03-04 05:10:00', '2001-03-04 06:40:00', '2001-03-04 06:40:00', '2001-03-04 08:00:00', '2001-03-04 08:00:00', '2001-03-04 11:30:00']
    dvals = [1.0, 2.0, 5.0, 0.0, np.nan, 4.0]
    dwant = [int((pd.Timestamp(t) - pd.Timestamp('1970-01-01')).total_seconds()) for t in dstamps]
    for rainfall in (False, True):
        se = pd.Series(dvals, index=pd.DatetimeIndex(dstamps))
        rec = Recorder()
        with patched_module(D, 'c_hydrodiy_data', rec):
            try:
                D.var2h(se, nbsec_per_period=3600, maxgapsec=7200, rainfall=rainfall)
            except Exception as e:
                out.append(('wrapper-runs', False, dict(case='duplicate-stamps', rainfall=rainfall, error=repr(e))))
                continue
        c = rec.calls[-1]
        out.append(('every-observation-reaches-the-kernel-in-order', list(map(int, c.args[5])) == dwant and np.array_equal(c.args[6], np.array(dvals), equal_nan=True)
                    and int(c.args[3]) == int(rainfall), dict(case='duplicate-stamps', rainfall=rainfall, got=list(map(int, c.args[5])), values=[None if v != v else float(v) for v in c.args[6]])))
    return out


CONTRACTS = [wrapper_var2h]


def contracts_part(tier, seed, workdir):
    from engine.contracts import run_contracts
    return run_contracts('C14', 'harness.C14', CONTRACTS, tier)


FAMILIES = [Var2h()]
PARTS = [contracts_part]

META = dict(
    explanation='bounded symbolic execution of the LLVM IR of c_var2h with SYMBOLIC INTEGER time stamps (arbitrary spacing, duplicates, stamps on '
                'period boundaries are feasible valuations), symbolic values (non-negative, negative or NaN) and maxgapsec, hstartsec/nvalh tied to '
                'the stamps as dutils.var2h computes them; each feasible path is compared with an independent closed-form integral of the '
                'piecewise-linear interpolant (rainfall: increments prorated by overlap) and with the missing-period rule',
    bounds=['2-3 observations plus one 4-observation shape (thorough: all 4-observation shapes), output length 2-3 (thorough 4), periods 1800 and 3600 s, first stamp in the hour before the origin, '
            'increments <= 5 h, values in [-100,100] and either >= 0, <= -1e-6 or NaN, maxgapsec in [3600, 10 days]'],
    outside=['the pandas side of the wrapper (index units s/ms/us/ns, time zones)', 'rounding (exact reals)', 'display=1 (printing)'],
    assumptions=['hstartsec = first whole hour after the first stamp; nvalh = int(span/period) (dutils.var2h)',
                 'values within (-1e-6, 0) excluded: the kernel treats values above -1e-8 as non-negative'],
    stubs=['fprintf: no effect'],
)
