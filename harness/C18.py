"""C18 (narrow) — computations leave their arguments untouched: kernel frame conditions (engine A) x recorded alias relation.

Only the mechanism "caller-visible arrays never reach a kernel that writes them" is claimed:
 1. the real Python wrappers are run with a recording stand-in for the c_hydrodiy_* modules on a dtype / layout grid of inputs;
    np.shares_memory gives the alias relation between each caller array and each kernel argument;
 2. for every (kernel, buffer) that a caller array can alias, engine A executes the kernel's IR with symbolic contents and shows
    that no store instruction targets that buffer on any feasible path (frame condition), and that the kernel writes no global
    (so it is a function of its arguments: repeatable);
 3. a (wrapper argument -> kernel buffer) pair seen by the recorder that is not in the table below is a harness error, so that a new
    aliasing path cannot go unnoticed."""
import numpy as np
from engine.llir.harness import Family, Buf
from engine.ops import *
import harness.C05 as C05

# (pyx wrapper name, position of the array argument) -> (C05 family name, kernel buffer name)
MAP = {
    ('islin', 3): ('mem:islin', 'data'),
    ('accumulate', 4): ('mem:accumulate', 'flowdir'),
    ('accumulate', 5): ('mem:accumulate', 'to_accumulate'),
    ('coord2cell', 5): ('mem:coord2cell', 'xycoords'),
    ('cell2coord', 5): ('mem:c_cell2coord', 'idxcell'),
    ('cell2rowcol', 2): ('mem:c_cell2rowcol', 'idxcell'),
    ('upstream', 1): ('mem:c_upstream', 'flowdir'),
    ('downstream', 1): ('mem:c_downstream', 'flowdir'),
    ('delineate_area', 1): ('mem:delineate_area', 'flowdir'),
    ('delineate_river', 4): ('mem:delineate_river', 'flowdir'),
    ('slice', 4): ('mem:slice', 'data'),
}


def alias_facts():
    """run the real wrappers with a recorder; returns (facts, problems)"""
    import pandas as pd
    from engine.contracts import Recorder, patched_module
    from hydrodiy.data import dutils as D, qualitycontrol as Q, signatures as SG
    from hydrodiy.stat import metrics as M, sutils as SU, armodels as A
    from hydrodiy.gis import gutils as GU, grid as G
    facts, problems, ncalls = set(), [], [0]

    def variants(a):
        a = np.asarray(a)
        out = {'float64-contiguous': np.ascontiguousarray(a, dtype=np.float64), 'float32': a.astype(np.float32), 'int64': a.astype(np.int64)}
        if a.ndim == 1:
            big = np.zeros((len(a), 2))
            big[:, 0] = a
            out['float64-strided'] = big[:, 0]
            out['pandas-series'] = pd.Series(np.ascontiguousarray(a, dtype=np.float64))
        else:
            out['float64-fortran'] = np.asfortranarray(a, dtype=np.float64)
        return out

    def record(name, rec, caller):
        for c in rec.calls:
            ncalls[0] += 1
            for i, ka in enumerate(c.raw_args):
                if isinstance(ka, np.ndarray):
                    for k, v in caller.items():
                        base = v.values if isinstance(v, pd.Series) else v
                        if isinstance(base, np.ndarray) and np.shares_memory(ka, base):
                            facts.add((c.name, i))

    def probe(name, pymod, attr, fn, arrays, build):
        for vn in ('float64-contiguous', 'float64-strided', 'float64-fortran', 'pandas-series', 'float32', 'int64'):
            vs = {}
            for k, a in arrays.items():
                v = variants(a)
                if vn in v:
                    vs[k] = v[vn]
            if len(vs) != len(arrays):
                continue
            rec = Recorder()
            with patched_module(pymod, attr, rec):
                try:
                    args, kw = build(vs)
                    fn(*args, **kw)
                except Exception:
                    pass
            record(name, rec, vs)
    x = np.array([1., 2., 3., 4., 2.5, 6.])
    idx = np.array([1, 1, 2, 2, 3, 3.])
    probe('islinear', Q, 'c_hydrodiy_data', Q.islinear, {'data': x}, lambda v: ((v['data'],), {}))
    probe('aggregate', D, 'c_hydrodiy_data', D.aggregate, {'idx': idx, 'x': x}, lambda v: ((v['idx'], v['x']), {}))
    probe('flathomogen', D, 'c_hydrodiy_data', D.flathomogen, {'idx': idx, 'x': x}, lambda v: ((v['idx'], v['x']), {}))
    probe('eckhardt', SG, 'c_hydrodiy_data', SG.eckhardt, {'x': x}, lambda v: ((v['x'],), {}))
    probe('crps', M, 'c_hydrodiy_stat', M.crps, {'obs': x, 'ens': np.column_stack([x, x + 1])}, lambda v: ((v['obs'], v['ens']), {}))
    probe('dscore', M, 'c_hydrodiy_stat', M.dscore, {'obs': x, 'ens': np.column_stack([x, x + 1])}, lambda v: ((v['obs'], v['ens']), {}))
    probe('anderson_darling_test', M, 'c_hydrodiy_stat', M.anderson_darling_test, {'u': x / 10}, lambda v: ((v['u'],), {}))
    probe('armodel_sim', A, 'c_hydrodiy_stat', A.armodel_sim, {'p': np.array([0.5, 0.1]), 'x': x}, lambda v: ((v['p'], v['x']), {}))
    probe('armodel_residual', A, 'c_hydrodiy_stat', A.armodel_residual, {'p': np.array([0.5, 0.1]), 'x': x}, lambda v: ((v['p'], v['x']), {}))
    probe('pareto_front', SU, 'c_hydrodiy_stat', SU.pareto_front, {'d': np.column_stack([x, x[::-1]])}, lambda v: ((v['d'],), {}))
    probe('points_inside_polygon', GU, 'c_hydrodiy_gis', GU.points_inside_polygon,
          {'pts': np.column_stack([x, x]), 'poly': np.array([[0, 0], [5, 0], [5, 5.]])}, lambda v: ((v['pts'], v['poly']), {}))
    # grid-level functions: the grids' own data blocks are the caller-visible arrays
    fd = G.Grid('fd', 3, 3, dtype=np.int64)
    fd.data = np.full((3, 3), 4, dtype=np.int64)
    fl = G.Grid('f', 3, 3, dtype=np.float64)
    fl.data = np.arange(9.).reshape(3, 3)
    xy = np.array([[0.5, 0.5], [1.5, 2.5]])
    cells = np.array([0, 4, 8], dtype=np.int64)
    inl = np.array([2], dtype=np.int64)
    pts = np.array([[0.5, 0.5], [2., 2.]])
    ca = G.Catchment('c', fd)

    def gprobe(fn, caller):
        rec = Recorder()
        with patched_module(G, 'c_hydrodiy_gis', rec):
            try:
                fn()
            except Exception:
                pass
        record('grid', rec, caller)
    gprobe(lambda: G.accumulate(fd, fl), {'fd': fd.data, 'fl': fl.data})
    gprobe(lambda: fl.coord2cell(xy), {'xy': xy, 'grid': fl.data})
    gprobe(lambda: fl.cell2coord(cells), {'cells': cells})
    gprobe(lambda: fl.cell2rowcol(cells), {'cells': cells})
    gprobe(lambda: fl.neighbours(4), {'grid': fl.data})
    gprobe(lambda: fl.slice(xy), {'xy': xy, 'grid': fl.data})
    gprobe(lambda: ca.upstream(cells), {'cells': cells, 'fd': fd.data, 'cafd': ca._flowdir.data})
    gprobe(lambda: ca.downstream(cells), {'cells': cells, 'fd': fd.data, 'cafd': ca._flowdir.data})
    gprobe(lambda: ca.delineate_area(4, inl), {'inl': inl, 'cafd': ca._flowdir.data})
    ca._idxcells_area = cells.copy()
    gprobe(lambda: G.voronoi(ca, pts), {'pts': pts, 'area': ca._idxcells_area})
    gprobe(lambda: G.delineate_river(fd, 0), {'fd': fd.data})
    return facts, ncalls[0]


class Frame(Family):
    """no store instruction of the kernel targets the listed buffers; no global is written"""
    prop = 'C18'
    memory = False
    validate_paths = 0

    def __init__(self, base, bufs):
        self.base, self.bufs = base, sorted(bufs)
        self.name = 'frame:%s[%s]' % (base.kernel, ','.join(self.bufs))
        self.pkg, self.kernel, self.srcfile = base.pkg, base.kernel, base.srcfile
        self.sqrt_mode = getattr(base, 'sqrt_mode', 'exact')
        self.time_budget = {'quick': 45, 'thorough': 300}

    def instances(self, tier):
        return [i for i in self.base.instances('quick') if all(v != 0 for k, v in i.items() if k in ('nval', 'n', 'ncells'))][:8]

    def cost(self, inst):
        return self.base.cost(inst)

    def inputs(self, inst, S):
        return self.base.inputs(inst, S)

    def args(self, inst, I):
        return self.base.args(inst, I)

    def execute(self, ex, path, inst, I, srcfile):
        return self.base.execute(ex, path, inst, I, srcfile)

    def native(self, ctx, inst, Ic):
        res, O, text = self.base.native(ctx, inst, Ic)
        # concrete judge: the buffers come back bit-identical
        before = {a.name: list(a.values) for a in self.base.args(inst, Ic) if isinstance(a, Buf)}
        O['__written__'] = {n: any((x != y) and not (x != x and y != y) for x, y in zip(before[n], O.get(n, before[n]))) for n in before}
        O['__globals_written__'] = []
        return res, O, text

    def spec(self, inst, I, O):
        w = O.get('__written__', {})
        return [('kernel-never-stores-to[%s]' % b, not w.get(b, False)) for b in self.bufs] + \
               [('kernel-writes-no-global', not O.get('__globals_written__'))]


def frame_families():
    facts, ncalls = alias_facts()
    by_name = {f.name: f for f in C05.FAMILIES}
    want = {}
    unknown = []
    for fact in sorted(facts):
        if fact not in MAP:
            unknown.append(fact)
            continue
        if MAP[fact] is None:
            continue
        fam, buf = MAP[fact]
        want.setdefault(fam, set()).add(buf)
    return [Frame(by_name[f], bufs) for f, bufs in sorted(want.items())], facts, unknown, ncalls


_FR = frame_families()
FAMILIES = _FR[0]


def alias_relation(tier):
    """every (wrapper argument, kernel buffer) pair through which a caller-visible array reaches a kernel is in the table whose
    frame conditions are verified; stale table entries are reported as well"""
    fams, facts, unknown, ncalls = frame_families()
    out = [('aliasing-pair-is-covered-by-a-frame-condition', False, dict(wrapper=f[0], argument=f[1])) for f in unknown]
    out.append(('recorded-kernel-calls', ncalls > 20, dict(calls=ncalls)))
    out.append(('alias-relation', True, dict(pairs=sorted('%s:%d' % f for f in facts))))
    return out


def write_probe(tier):
    """Python layer: every public array-taking function is called (real compiled modules) with caller arrays whose WRITEABLE flag is cleared, over
    the dtype / layout grid.  Any in-place write through the argument or a view of it then raises numpy's read-only error whatever the values are;
    in addition values, dtype and shape are compared bit for bit after the call, and two consecutive calls must return the same result.
    Other exceptions (a Cython buffer that wants a writeable array although the kernel only reads it, a pandas restriction) make the call
    not probe-able and are counted, not judged.  Concrete and deterministic (labelled as such): this complements the recorded alias relation for
    functions that never reach a kernel with the caller's buffer."""
    import warnings
    import pandas as pd
    import matplotlib
    matplotlib.use('Agg')
    import matplotlib.pyplot as plt
    from hydrodiy.data import dutils as D, qualitycontrol as Q, signatures as SG
    from hydrodiy.stat import metrics as M, sutils as SU, armodels as A, transform as T
    from hydrodiy.gis import gutils as GU, grid as G
    from hydrodiy.plot import putils as PU, boxplot as BP
    out = []
    stats = dict(calls=0, skipped=0)
    RO = ('assignment destination is read-only', 'output array is read-only', 'array is read-only', 'is read-only')

    def ro(a):
        a = a.copy() if not isinstance(a, np.ndarray) or a.base is None else a
        return a

    def variants(a):
        a = np.asarray(a)
        v = {'float64-contiguous': np.ascontiguousarray(a, dtype=np.float64)}
        if a.ndim == 1:
            big = np.zeros((len(a), 2))
            big[:, 0] = a
            v['float64-strided'] = big[:, 0]
        else:
            v['float64-fortran'] = np.asfortranarray(a, dtype=np.float64)
        if np.all(np.isfinite(a)) and np.all(a == np.round(a)):
            v['int64'] = a.astype(np.int64)
        v['float32'] = a.astype(np.float32)
        return v

    def same_result(r1, r2):
        try:
            if isinstance(r1, tuple):
                return len(r1) == len(r2) and all(same_result(a, b) for a, b in zip(r1, r2))
            if isinstance(r1, (pd.Series, pd.DataFrame)):
                return r1.equals(r2)
            if isinstance(r1, G.Grid):
                return np.array_equal(r1.data, r2.data, equal_nan=True)
            if isinstance(r1, dict):
                return set(r1) == set(r2) and all(same_result(r1[k], r2[k]) for k in r1)
            a1, a2 = np.asarray(r1), np.asarray(r2)
            if a1.dtype == object or a2.dtype == object:
                return True
            return a1.shape == a2.shape and bool(np.array_equal(a1, a2, equal_nan=True))
        except Exception:
            return True

    def probe(name, arrays, call, repeat=True):
        """arrays: dict name -> ndarray template; call(dict of read-only arrays) -> result"""
        names = list(arrays)
        vsets = {k: variants(a) for k, a in arrays.items()}
        for vn in ('float64-contiguous', 'float64-strided', 'float64-fortran', 'int64', 'float32'):
            if not all(vn in vsets[k] or 'float64-contiguous' in vsets[k] for k in names) or not any(vn in vsets[k] for k in names):
                continue
            vs = {k: (vsets[k][vn] if vn in vsets[k] else vsets[k]['float64-contiguous']) for k in names}
            keep = {k: (v.copy(), v.dtype, v.shape) for k, v in vs.items()}
            for v in vs.values():
                v.flags.writeable = False
                if v.base is not None and isinstance(v.base, np.ndarray):
                    v.base.flags.writeable = False
            tag = dict(function=name, variant=vn)
            res = []
            wrote = None
            err = None
            with warnings.catch_warnings():
                warnings.simplefilter('ignore')
                for k in range(2 if repeat else 1):
                    try:
                        np.random.seed(5446)      # "the same random seed where randomness is involved"
                        res.append(call(vs))
                    except Exception as e:
                        msg = str(e)
                        if isinstance(e, ValueError) and any(m in msg for m in RO) and 'buffer source' not in msg:
                            wrote = msg
                        else:
                            err = repr(e)[:120]
                        break
            plt.close('all')
            stats['calls'] += 1
            if err is not None:
                stats['skipped'] += 1
            out.append(('no-in-place-write-into-an-argument', wrote is None, dict(tag, error=wrote)))
            ok = all(np.array_equal(vs[k], keep[k][0], equal_nan=True) and vs[k].dtype == keep[k][1] and vs[k].shape == keep[k][2] for k in names)
            out.append(('arguments-bitwise-unchanged', bool(ok), tag))
            if len(res) == 2:
                out.append(('two-calls-same-result', same_result(res[0], res[1]), tag))

    x = np.array([1., 2., 3., 4., 2.5, 6., 0.5, 7.])
    y = np.array([1.5, 1.8, 3.2, 3.9, 2.0, 6.5, 0.7, 6.0])
    ens = np.column_stack([y, y + 0.5, y - 0.25])
    u = np.array([0.11, 0.35, 0.52, 0.77, 0.93, 0.25, 0.64, 0.41])
    cat = np.array([0., 1., 2., 1., 0., 2., 1., 1.])
    for nm, f in (('bias', M.bias), ('nse', M.nse), ('kge', M.kge), ('dscore', M.dscore)):
        probe('metrics.' + nm, {'obs': x, 'sim': y}, lambda v, f=f: f(v['obs'], v['sim']))
    for tr in (T.Log(), T.BoxCox2()):
        probe('metrics.nse[%s]' % tr.name, {'obs': x, 'sim': y}, lambda v, tr=tr: M.nse(v['obs'], v['sim'], trans=tr))
        probe('metrics.corr[%s]' % tr.name, {'obs': x, 'ens': ens}, lambda v, tr=tr: M.corr(v['obs'], v['ens'], trans=tr))
    probe('metrics.corr', {'obs': x, 'ens': ens}, lambda v: M.corr(v['obs'], v['ens']))
    # a single-member ensemble given as a (1, n) row: the wrappers transpose it - on a copy / view, never by reshaping the caller's array
    row = y[None, :].copy()
    probe('metrics.corr[row-vector]', {'obs': x, 'ens': row}, lambda v: M.corr(v['obs'], v['ens']))
    probe('metrics.dscore[row-vector]', {'obs': x, 'ens': row}, lambda v: M.dscore(v['obs'], v['ens']))
    probe('metrics.crps[row-vector]', {'obs': x, 'ens': row}, lambda v: M.crps(v['obs'], v['ens']))
    probe('metrics.pit[row-vector]', {'obs': x, 'ens': row}, lambda v: M.pit(v['obs'], v['ens']))
    probe('metrics.crps', {'obs': x, 'ens': ens}, lambda v: M.crps(v['obs'], v['ens']))
    probe('metrics.pit', {'obs': x, 'ens': ens}, lambda v: M.pit(v['obs'], v['ens']))
    probe('metrics.alpha', {'obs': x, 'ens': ens}, lambda v: M.alpha(v['obs'], v['ens']))
    probe('metrics.iqr', {'ens': ens, 'ref': ens + 0.1}, lambda v: M.iqr(v['ens'], v['ref']))
    probe('metrics.anderson_darling_test', {'u': u}, lambda v: M.anderson_darling_test(v['u']))
    probe('metrics.cramer_von_mises_test', {'u': u}, lambda v: M.cramer_von_mises_test(v['u']))
    probe('metrics.relative_percentile_error', {'obs': x, 'sim': y}, lambda v: M.relative_percentile_error(v['obs'], v['sim'], [0, 100]))
    probe('metrics.confusion_matrix', {'obs': cat, 'sim': cat[::-1].copy()}, lambda v: M.confusion_matrix(v['obs'], v['sim']))
    probe('sutils.acf', {'x': x}, lambda v: SU.acf(v['x'], 2))
    probe('sutils.standard_normal', {'x': x}, lambda v: SU.standard_normal(v['x']))
    probe('sutils.semicorr', {'u': np.column_stack([x, y]) - 3.}, lambda v: SU.semicorr(v['u']))
    probe('sutils.pareto_front', {'d': np.column_stack([x, y[::-1]])}, lambda v: SU.pareto_front(v['d']))
    probe('sutils.lhs', {'pmin': np.array([0., 1.]), 'pmax': np.array([1., 3.])}, lambda v: SU.lhs(5, v['pmin'], v['pmax']), repeat=False)
    probe('sutils.lstsq', {'X': np.column_stack([x, y * y]), 'y': y}, lambda v: SU.lstsq(v['X'], v['y']))
    probe('armodels.armodel_sim', {'p': np.array([0.5, 0.1]), 'e': x}, lambda v: A.armodel_sim(v['p'], v['e']))
    probe('armodels.armodel_residual', {'p': np.array([0.5, 0.1]), 'e': x}, lambda v: A.armodel_residual(v['p'], v['e']))
    probe('armodels.yule_walker', {'acf': np.array([0.5, 0.2])}, lambda v: A.yule_walker(v['acf']))
    for nm in T.__all__:
        if nm in ('get_transform', 'Transform'):
            continue
        try:
            tr = T.get_transform(nm)
        except Exception:
            continue
        if 'xmax' in [str(n) for n in tr.constants.names]:
            tr.constants.values = [8.0] + list(tr.constants.values[1:])
        if nm == 'Softmax':
            xt = np.column_stack([u, u[::-1]]) / 3.
        elif nm == 'Logit':
            xt = u
        else:
            xt = x
        for meth in ('forward', 'backward', 'jacobian'):
            probe('transform.%s.%s' % (nm, meth), {'x': xt if meth != 'backward' or nm == 'Softmax' else u},
                  lambda v, tr=tr, meth=meth: getattr(tr, meth)(v['x']))
    probe('dutils.cast', {'x': x, 'y': y}, lambda v: D.cast(v['x'], v['y']))
    probe('dutils.sequence_true', {'b': (x > 2).astype(float)}, lambda v: D.sequence_true(v['b'] > 0.5))
    probe('dutils.lag', {'x': x}, lambda v: D.lag(v['x'], 2))
    probe('dutils.aggregate', {'idx': np.array([1., 1, 2, 2, 3, 3, 4, 4]), 'x': x}, lambda v: D.aggregate(v['idx'], v['x']))
    probe('dutils.flathomogen', {'idx': np.array([1., 1, 2, 2, 3, 3, 4, 4]), 'x': x}, lambda v: D.flathomogen(v['idx'], v['x']))
    probe('qualitycontrol.islinear', {'x': x}, lambda v: Q.islinear(v['x']))
    probe('qualitycontrol.ismisscens', {'x': x}, lambda v: Q.ismisscens(v['x']))
    probe('signatures.eckhardt', {'x': x}, lambda v: SG.eckhardt(v['x']))
    probe('signatures.fdcslope', {'x': np.arange(1., 60.)}, lambda v: SG.fdcslope(v['x']))
    probe('signatures.goue', {'idx': np.array([1., 1, 2, 2, 3, 3, 4, 4]), 'x': x}, lambda v: SG.goue(v['idx'], v['x']))
    probe('gutils.points_inside_polygon', {'pts': np.column_stack([x, y]), 'poly': np.array([[0, 0], [5, 0], [5, 5.], [0, 5.]])},
          lambda v: GU.points_inside_polygon(v['pts'], v['poly']))
    # a caller-supplied output vector: the result does not depend on what it held before
    ptsq, polyq = np.column_stack([x, y]), np.array([[2., 2.], [5., 2.], [5., 5.], [2., 5.]])
    r0 = GU.points_inside_polygon(ptsq, polyq)
    dirty = np.ones(len(ptsq), dtype=np.int32)
    r1 = GU.points_inside_polygon(ptsq, polyq, inside=dirty)
    out.append(('result-independent-of-output-buffer-content', bool(np.array_equal(np.asarray(r0).astype(bool), np.asarray(r1).astype(bool))),
                dict(function='gutils.points_inside_polygon', got=[int(v) for v in np.asarray(r1)], want=[int(v) for v in np.asarray(r0)])))
    probe('boxplot.boxplot_stats', {'x': x}, lambda v: BP.boxplot_stats(v['x'], 50, 90))
    probe('putils.kde', {'xy': np.column_stack([x, y])}, lambda v: PU.kde(v['xy'], ngrid=8))
    probe('putils.qqplot', {'x': x}, lambda v: PU.qqplot(plt.subplots()[1], v['x']), repeat=False)
    probe('putils.ecdfplot', {'x': np.column_stack([x, y])}, lambda v: PU.ecdfplot(plt.subplots()[1], pd.DataFrame(v['x'], columns=['a', 'b'])), repeat=False)
    # grid arguments keep their cell values (the data block is made read-only)
    def gcase(name, dtype, fn):
        g = G.Grid('g', 6, 5, dtype=dtype)
        g.data = (np.arange(30).reshape(5, 6) % 7 + 1).astype(dtype)
        keep = g.data.copy()
        blk = g._data
        blk.flags.writeable = False
        wrote, err, res = None, None, []
        with warnings.catch_warnings():
            warnings.simplefilter('ignore')
            for k in range(2):
                try:
                    np.random.seed(5446)
                    res.append(fn(g))
                except Exception as e:
                    if isinstance(e, ValueError) and any(m in str(e) for m in RO) and 'buffer source' not in str(e):
                        wrote = str(e)
                    else:
                        err = repr(e)[:120]
                    break
        stats['calls'] += 1
        if err is not None:
            stats['skipped'] += 1
        tag = dict(function=name, variant=str(np.dtype(dtype)))
        out.append(('no-in-place-write-into-an-argument', wrote is None, dict(tag, error=wrote)))
        out.append(('arguments-bitwise-unchanged', bool(np.array_equal(g._data, keep)) and g._data is blk, tag))
        if len(res) == 2:
            out.append(('two-calls-same-result', same_result(res[0], res[1]), tag))
    for dt in (np.float64, np.float32, np.int64):
        gcase('grid.gsmooth', dt, lambda g: G.gsmooth(g, coastwin=20, sigma=1.))
        gcase('Grid.clone', dt, lambda g: g.clone())
        gcase('Grid.clip', dt, lambda g: g.clip(1.2, 1.2, 3.8, 3.8))
        gcase('Grid.apply', dt, lambda g: g.apply(lambda d: d * 2))
        gcase('Grid.slice', dt, lambda g: g.slice(np.array([[0.5, 0.5], [4.5, 3.5]])))
        gcase('Grid.interpolate', dt, lambda g: g.interpolate(G.Grid('h', 3, 3, cellsize=2.)))
        gcase('Grid.coord2cell', dt, lambda g: g.coord2cell(np.array([[0.5, 0.5], [4.5, 3.5]])))
    out.append(('probed-calls', stats['calls'] >= 100 and stats['skipped'] * 3 <= stats['calls'], dict(stats)))
    return out


CONTRACTS = [alias_relation, write_probe]


def contracts_part(tier, seed, workdir):
    from engine.contracts import run_contracts
    return run_contracts('C18', 'harness.C18', CONTRACTS, tier)


PARTS = [contracts_part]
META = dict(
    explanation='narrow claim: (1) the real wrappers are run with a recording stand-in on a dtype/layout grid of inputs (float64 contiguous / strided / '
                'Fortran / float32 / int64 / pandas Series) and np.shares_memory gives the alias relation between caller-visible arrays (incl. the data '
                'blocks of Grid arguments) and kernel arguments; (2) for every kernel buffer a caller array can alias, engine A executes the kernel IR '
                'with symbolic contents and shows that no store instruction targets that buffer on any feasible path and that no global is written',
    bounds=['kernel sizes as in C05 quick (non-empty instances, at most 8 per kernel)', 'one representative call per wrapper and input variant'],
    outside=['the Python layer (functions that do not hand the caller\'s buffer to a kernel, e.g. gsmooth, transform methods, plot helpers) is only covered by '
             'the concrete read-only write probe (one representative call per function and dtype/layout variant), not by a solver verdict',
             'numpy copy/view decisions are assumed to depend on dtype and layout only, not on values'],
    assumptions=['a buffer is "written" if any store instruction targets it (syntactic over-approximation)'],
    stubs=['recording stand-in for c_hydrodiy_data / c_hydrodiy_stat / c_hydrodiy_gis'],
)
