"""C18 (narrow) — computations leave their arguments untouched: kernel frame conditions (engine A) x recorded alias relation.

Only the mechanism "caller-visible arrays never reach a kernel that writes them" is claimed:
 1. the real Python wrappers are run with a recording stand-in for the c_hydrodiy_* modules on a dtype / layout grid of inputs;
    np.shares_memory gives the alias relation between each caller array and each kernel argument;
 2. for every (kernel, buffer) that a caller array can alias, engine A executes the kernel's IR with symbolic contents and shows
    that no store instruction targets that buffer on any feasible path (frame condition), and that the kernel writes no global
    (so it is a function of its arguments: repeatable);
 3. a (wrapper argument -> kernel buffer) pair seen by the recorder that is not in the table below is a harness error, so that a new
    aliasing path cannot go unnoticed."""
import numpy as np
from engine.llir.harness import Family, Buf
from engine.ops import *
import harness.C05 as C05

# (pyx wrapper name, position of the array argument) -> (C05 family name, kernel buffer name)
MAP = {
    ('islin', 3): ('mem:islin', 'data'),
    ('accumulate', 4): ('mem:accumulate', 'flowdir'),
    ('accumulate', 5): ('mem:accumulate', 'to_accumulate'),
    ('coord2cell', 5): ('mem:coord2cell', 'xycoords'),
    ('cell2coord', 5): ('mem:c_cell2coord', 'idxcell'),
    ('cell2rowcol', 2): ('mem:c_cell2rowcol', 'idxcell'),
    ('upstream', 1): ('mem:c_upstream', 'flowdir'),
    ('downstream', 1): ('mem:c_downstream', 'flowdir'),
    ('delineate_area', 1): ('mem:delineate_area', 'flowdir'),
    ('delineate_river', 4): ('mem:delineate_river', 'flowdir'),
    ('slice', 4): None,     # c_slice is not encoded: listed as outside the claim
}


def alias_facts():
    """run the real wrappers with a recorder; returns (facts, problems)"""
    import pandas as pd
    from engine.contracts import Recorder, patched_module
    from hydrodiy.data import dutils as D, qualitycontrol as Q, signatures as SG
    from hydrodiy.stat import metrics as M, sutils as SU, armodels as A
    from hydrodiy.gis import gutils as GU, grid as G
    facts, problems, ncalls = set(), [], [0]

    def variants(a):
        a = np.asarray(a)
        out = {'float64-contiguous': np.ascontiguousarray(a, dtype=np.float64), 'float32': a.astype(np.float32), 'int64': a.astype(np.int64)}
        if a.ndim == 1:
            big = np.zeros((len(a), 2))
            big[:, 0] = a
            out['float64-strided'] = big[:, 0]
            out['pandas-series'] = pd.Series(np.ascontiguousarray(a, dtype=np.float64))
        else:
            out['float64-fortran'] = np.asfortranarray(a, dtype=np.float64)
        return out

    def record(name, rec, caller):
        for c in rec.calls:
            ncalls[0] += 1
            for i, ka in enumerate(c.raw_args):
                if isinstance(ka, np.ndarray):
                    for k, v in caller.items():
                        base = v.values if isinstance(v, pd.Series) else v
                        if isinstance(base, np.ndarray) and np.shares_memory(ka, base):
                            facts.add((c.name, i))

    def probe(name, pymod, attr, fn, arrays, build):
        for vn in ('float64-contiguous', 'float64-strided', 'float64-fortran', 'pandas-series', 'float32', 'int64'):
            vs = {}
            for k, a in arrays.items():
                v = variants(a)
                if vn in v:
                    vs[k] = v[vn]
            if len(vs) != len(arrays):
                continue
            rec = Recorder()
            with patched_module(pymod, attr, rec):
                try:
                    args, kw = build(vs)
                    fn(*args, **kw)
                except Exception:
                    pass
            record(name, rec, vs)
    x = np.array([1., 2., 3., 4., 2.5, 6.])
    idx = np.array([1, 1, 2, 2, 3, 3.])
    probe('islinear', Q, 'c_hydrodiy_data', Q.islinear, {'data': x}, lambda v: ((v['data'],), {}))
    probe('aggregate', D, 'c_hydrodiy_data', D.aggregate, {'idx': idx, 'x': x}, lambda v: ((v['idx'], v['x']), {}))
    probe('flathomogen', D, 'c_hydrodiy_data', D.flathomogen, {'idx': idx, 'x': x}, lambda v: ((v['idx'], v['x']), {}))
    probe('eckhardt', SG, 'c_hydrodiy_data', SG.eckhardt, {'x': x}, lambda v: ((v['x'],), {}))
    probe('crps', M, 'c_hydrodiy_stat', M.crps, {'obs': x, 'ens': np.column_stack([x, x + 1])}, lambda v: ((v['obs'], v['ens']), {}))
    probe('dscore', M, 'c_hydrodiy_stat', M.dscore, {'obs': x, 'ens': np.column_stack([x, x + 1])}, lambda v: ((v['obs'], v['ens']), {}))
    probe('anderson_darling_test', M, 'c_hydrodiy_stat', M.anderson_darling_test, {'u': x / 10}, lambda v: ((v['u'],), {}))
    probe('armodel_sim', A, 'c_hydrodiy_stat', A.armodel_sim, {'p': np.array([0.5, 0.1]), 'x': x}, lambda v: ((v['p'], v['x']), {}))
    probe('armodel_residual', A, 'c_hydrodiy_stat', A.armodel_residual, {'p': np.array([0.5, 0.1]), 'x': x}, lambda v: ((v['p'], v['x']), {}))
    probe('pareto_front', SU, 'c_hydrodiy_stat', SU.pareto_front, {'d': np.column_stack([x, x[::-1]])}, lambda v: ((v['d'],), {}))
    probe('points_inside_polygon', GU, 'c_hydrodiy_gis', GU.points_inside_polygon,
          {'pts': np.column_stack([x, x]), 'poly': np.array([[0, 0], [5, 0], [5, 5.]])}, lambda v: ((v['pts'], v['poly']), {}))
    # grid-level functions: the grids' own data blocks are the caller-visible arrays
    fd = G.Grid('fd', 3, 3, dtype=np.int64)
    fd.data = np.full((3, 3), 4, dtype=np.int64)
    fl = G.Grid('f', 3, 3, dtype=np.float64)
    fl.data = np.arange(9.).reshape(3, 3)
    xy = np.array([[0.5, 0.5], [1.5, 2.5]])
    cells = np.array([0, 4, 8], dtype=np.int64)
    inl = np.array([2], dtype=np.int64)
    pts = np.array([[0.5, 0.5], [2., 2.]])
    ca = G.Catchment('c', fd)

    def gprobe(fn, caller):
        rec = Recorder()
        with patched_module(G, 'c_hydrodiy_gis', rec):
            try:
                fn()
            except Exception:
                pass
        record('grid', rec, caller)
    gprobe(lambda: G.accumulate(fd, fl), {'fd': fd.data, 'fl': fl.data})
    gprobe(lambda: fl.coord2cell(xy), {'xy': xy, 'grid': fl.data})
    gprobe(lambda: fl.cell2coord(cells), {'cells': cells})
    gprobe(lambda: fl.cell2rowcol(cells), {'cells': cells})
    gprobe(lambda: fl.neighbours(4), {'grid': fl.data})
    gprobe(lambda: fl.slice(xy), {'xy': xy, 'grid': fl.data})
    gprobe(lambda: ca.upstream(cells), {'cells': cells, 'fd': fd.data, 'cafd': ca._flowdir.data})
    gprobe(lambda: ca.downstream(cells), {'cells': cells, 'fd': fd.data, 'cafd': ca._flowdir.data})
    gprobe(lambda: ca.delineate_area(4, inl), {'inl': inl, 'cafd': ca._flowdir.data})
    ca._idxcells_area = cells.copy()
    gprobe(lambda: G.voronoi(ca, pts), {'pts': pts, 'area': ca._idxcells_area})
    gprobe(lambda: G.delineate_river(fd, 0), {'fd': fd.data})
    return facts, ncalls[0]


class Frame(Family):
    """no store instruction of the kernel targets the listed buffers; no global is written"""
    prop = 'C18'
    memory = False
    validate_paths = 0

    def __init__(self, base, bufs):
        self.base, self.bufs = base, sorted(bufs)
        self.name = 'frame:%s[%s]' % (base.kernel, ','.join(self.bufs))
        self.pkg, self.kernel, self.srcfile = base.pkg, base.kernel, base.srcfile
        self.sqrt_mode = getattr(base, 'sqrt_mode', 'exact')
        self.time_budget = {'quick': 45, 'thorough': 300}

    def instances(self, tier):
        return [i for i in self.base.instances('quick') if all(v != 0 for k, v in i.items() if k in ('nval', 'n', 'ncells'))][:8]

    def cost(self, inst):
        return self.base.cost(inst)

    def inputs(self, inst, S):
        return self.base.inputs(inst, S)

    def args(self, inst, I):
        return self.base.args(inst, I)

    def execute(self, ex, path, inst, I, srcfile):
        return self.base.execute(ex, path, inst, I, srcfile)

    def native(self, ctx, inst, Ic):
        res, O, text = self.base.native(ctx, inst, Ic)
        # concrete judge: the buffers come back bit-identical
        before = {a.name: list(a.values) for a in self.base.args(inst, Ic) if isinstance(a, Buf)}
        O['__written__'] = {n: any((x != y) and not (x != x and y != y) for x, y in zip(before[n], O.get(n, before[n]))) for n in before}
        O['__globals_written__'] = []
        return res, O, text

    def spec(self, inst, I, O):
        w = O.get('__written__', {})
        return [('kernel-never-stores-to[%s]' % b, not w.get(b, False)) for b in self.bufs] + \
               [('kernel-writes-no-global', not O.get('__globals_written__'))]


def frame_families():
    facts, ncalls = alias_facts()
    by_name = {f.name: f for f in C05.FAMILIES}
    want = {}
    unknown = []
    for fact in sorted(facts):
        if fact not in MAP:
            unknown.append(fact)
            continue
        if MAP[fact] is None:
            continue
        fam, buf = MAP[fact]
        want.setdefault(fam, set()).add(buf)
    return [Frame(by_name[f], bufs) for f, bufs in sorted(want.items())], facts, unknown, ncalls


_FR = frame_families()
FAMILIES = _FR[0]


def alias_relation(tier):
    """every (wrapper argument, kernel buffer) pair through which a caller-visible array reaches a kernel is in the table whose
    frame conditions are verified; stale table entries are reported as well"""
    fams, facts, unknown, ncalls = frame_families()
    out = [('aliasing-pair-is-covered-by-a-frame-condition', False, dict(wrapper=f[0], argument=f[1])) for f in unknown]
    out.append(('recorded-kernel-calls', ncalls > 20, dict(calls=ncalls)))
    out.append(('alias-relation', True, dict(pairs=sorted('%s:%d' % f for f in facts))))
    return out


CONTRACTS = [alias_relation]


def contracts_part(tier, seed, workdir):
    from engine.contracts import run_contracts
    return run_contracts('C18', 'harness.C18', CONTRACTS, tier)


PARTS = [contracts_part]
META = dict(
    explanation='narrow claim: (1) the real wrappers are run with a recording stand-in on a dtype/layout grid of inputs (float64 contiguous / strided / '
                'Fortran / float32 / int64 / pandas Series) and np.shares_memory gives the alias relation between caller-visible arrays (incl. the data '
                'blocks of Grid arguments) and kernel arguments; (2) for every kernel buffer a caller array can alias, engine A executes the kernel IR '
                'with symbolic contents and shows that no store instruction targets that buffer on any feasible path and that no global is written',
    bounds=['kernel sizes as in C05 quick (non-empty instances, at most 8 per kernel)', 'one representative call per wrapper and input variant'],
    outside=['plot helpers, pandas copies, transform methods, RNG-seeded repeatability, functions that do not reach a kernel (e.g. gsmooth): not claimed',
             'c_slice (not encoded)', 'numpy copy/view decisions are assumed to depend on dtype and layout only, not on values'],
    assumptions=['a buffer is "written" if any store instruction targets it (syntactic over-approximation)'],
    stubs=['recording stand-in for c_hydrodiy_data / c_hydrodiy_stat / c_hydrodiy_gis'],
)
