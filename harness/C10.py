"""C10 — rank / PIT based diagnostics: c_ensrank and the Anderson-Darling statistic (engine A); dscore / pit (engine B parts)."""
from fractions import Fraction
import z3
from engine.llir.harness import Family, Scalar, Buf, sym_kernel, nat_kernel
from engine.llir.xr import XR
from engine.llir.interp import LOG
from engine.ops import *

EPS = 1e-6


class EnsRank(Family):
    prop = 'C10'
    name = 'ensrank'
    pkg = 'stat'
    kernel = 'c_ensrank'
    srcfile = 'stat/c_dscore.c'
    time_budget = {'quick': 250, 'thorough': 2400}

    def instances(self, tier):
        shapes = [(1, 1), (1, 2), (2, 1), (2, 2), (3, 1)] + ([(3, 2), (2, 3), (4, 1)] if tier == 'thorough' else [])
        return [dict(nval=n, ncol=m) for n, m in shapes]

    def cost(self, inst):
        return 9 ** (inst['nval'] * inst['ncol'])

    def inputs(self, inst, S):
        n, m = inst['nval'], inst['ncol']
        sim = [[S.real('s%d_%d' % (i, j), -1000, 1000) for j in range(m)] for i in range(n)]
        flat = [v for r in sim for v in r]
        # values are either exactly tied or separated by more than the tie tolerance (property precondition)
        for a in range(len(flat)):
            for b in range(a + 1, len(flat)):
                d = flat[a].num - flat[b].num
                S.assume(z3.Or(d == 0, d > 2 * EPS, d < -2 * EPS))
        return dict(sim=sim)

    def args(self, inst, I):
        n, m = inst['nval'], inst['ncol']
        return [Scalar('double', EPS), Scalar('i32', n), Scalar('i32', m), Buf('sim', 'double', [v for r in I['sim'] for v in r]),
                Buf('fmat', 'double', [0.0] * (n * n), out=True), Buf('ranks', 'double', [0.0] * n, out=True)]

    def spec(self, inst, I, O):
        n, m = inst['nval'], inst['ncol']
        sim = I['sim']
        res = [('ret0', O['ret'] == 0), ('sim-unchanged', forall(fsame(a, b) for a, b in zip(O['sim'], [v for r in sim for v in r])))]
        ranks = [1.0] * n
        for i1 in range(n):
            for i2 in range(i1 + 1, n):
                pooled = sim[i1] + sim[i2]
                # Weigel & Mason: sum over the first ensemble of pooled mid-ranks
                sumrank = 0.0
                for a in sim[i1]:
                    below = count(flt(x, a) for x in pooled)
                    equal = count(feq(x, a) for x in pooled)
                    # mid-rank = 1 + below + (equal-1)/2, kept in halves to stay in integers
                    sumrank = sumrank + 2 + 2 * below + equal - 1
                F2 = sumrank - m * (m + 1)          # = 2 m^2 F
                F = fmul(Fraction(1, 2 * m * m), tor(F2))
                res.append(('fmat[%d,%d]=midrank-comparison' % (i1, i2), fsame(O['fmat'][i1 * n + i2], F, self.tol)))
                u = fite(F2 < m * m, 0.0, fite(F2 > m * m, 1.0, 0.5))
                ranks[i1] = fadd(ranks[i1], u)
                ranks[i2] = fadd(ranks[i2], fsub(1.0, u))
        for i in range(n):
            res.append(('ranks[%d]' % i, fsame(O['ranks'][i], ranks[i], self.tol)))
        return res


class EnsRankReject(Family):
    prop = 'C10'
    name = 'ensrank-rejects'
    pkg = 'stat'
    kernel = 'c_ensrank'
    srcfile = 'stat/c_dscore.c'

    def instances(self, tier):
        return [dict(eps=0.0), dict(eps=-1.0)]

    def inputs(self, inst, S):
        return dict(sim=[S.real('a'), S.real('b')])

    def args(self, inst, I):
        return [Scalar('double', inst['eps']), Scalar('i32', 2), Scalar('i32', 1), Buf('sim', 'double', I['sim']),
                Buf('fmat', 'double', [0.0] * 4, out=True), Buf('ranks', 'double', [0.0] * 2, out=True)]

    def spec(self, inst, I, O):
        return [('bad-eps-rejected', O['ret'] != 0)]


class ADTest(Family):
    prop = 'C10'
    name = 'ad_test'
    pkg = 'stat'
    kernel = 'c_ad_test'
    srcfile = 'stat/c_andersondarling.c'
    validate_paths = 0   # the p-value routine is stubbed in the symbolic run (outside the claim)
    tol = 1e-7

    def instances(self, tier):
        return [dict(n=n) for n in ([1, 2, 3] + ([4] if tier == 'thorough' else []))]

    def cost(self, inst):
        return 10 ** inst['n']

    def inputs(self, inst, S):
        return dict(x=[S.real('u%d' % i, -2, 3, nan=True) for i in range(inst['n'])])

    def execute(self, ex, path, inst, I, srcfile):
        def AD(path_, fn, ins, a):
            path_.fresh += 1
            p = z3.Real('ADp!%d' % path_.fresh)
            return XR(p)
        ex.stubs = {'AD': AD}
        try:
            return sym_kernel(ex, path, 'c_ad_test', self.args(inst, I), srcfile)
        finally:
            ex.stubs = {}

    def args(self, inst, I):
        return [Scalar('i32', inst['n']), Buf('unifdata', 'double', I['x']), Buf('outputs', 'double', [0.0, 0.0], out=True)]

    def spec(self, inst, I, O):
        import math
        n = inst['n']
        x = I['x']
        S = O['unifdata']
        bad = exists(b_or(fisnan(v), flt(v, 0.0), fgt(v, 1.0)) for v in x)
        res = [('outside-[0,1]-or-nan-rejected', b_implies(bad, O['ret'] != 0)), ('valid-accepted', b_implies(b_not(bad), O['ret'] == 0))]
        ok = b_not(bad)
        # the buffer handed over is sorted in place: a sorted permutation of the input (complete data)
        res.append(('sorted', b_implies(ok, forall(fle(S[i], S[i + 1]) for i in range(n - 1)))))
        res.append(('permutation', b_implies(ok, forall(count(feq(s, v) for s in S) == count(feq(w, v) for w in x) for v in x))))
        # statistic: A2 = -n - (1/n) sum (2i+1) ln( x_(i) (1 - x_(n-1-i)) ) on the sorted sample; zero arguments excluded (log undefined)
        interior = forall(b_and(fgt(v, 0.0), flt(v, 1.0)) for v in x)
        if all(is_conc(s) for s in S):
            if all(0 < s < 1 for s in S):
                z = sum((2 * i + 1) * math.log(S[i] * (1 - S[n - 1 - i])) for i in range(n))
                res.append(('statistic', b_implies(b_and(ok, interior), fsame(O['outputs'][0], -n - z / n, self.tol))))
        else:
            z = 0.0
            for i in range(n):
                t = fmul(S[i], fsub(1.0, S[n - 1 - i]))
                z = fadd(z, fmul(float(2 * i + 1), XR(LOG(lift(t).val))))
            res.append(('statistic', b_implies(b_and(ok, interior), fsame(O['outputs'][0], fsub(float(-n), fmul(Fraction(1, n), z)), self.tol))))
        return res


FAMILIES = [EnsRank(), EnsRankReject(), ADTest()]
PARTS = []

META = dict(
    explanation='engine A: bounded symbolic execution of the LLVM IR of c_ensrank (pooled sort of each pair of ensembles through the real '
                'comparator, tie sequences) against the Weigel-Mason pooled mid-rank comparison and rank sums, for all values that are exactly tied '
                'or more than the tolerance apart; and of c_ad_test/ADtest (in-place sort, range/NaN rejection, statistic with log uninterpreted)',
    bounds=['ensrank: (forecasts x members) 1x1,1x2,2x1,2x2,3x1 quick; + 3x2, 2x3, 4x1 thorough; eps = 1e-6; |values| <= 1000',
            'Anderson-Darling: n <= 3 (thorough 4), values in [-2,3] or NaN'],
    outside=['p-values (Marsaglia polynomial/exp approximations, tabulated Cramer-von Mises values): numeric facts about constants, not encoded',
             'pit(random=False) (scipy percentileofscore)', 'cramer_von_mises_test (np.sort/np.interp over a table)', 'alpha',
             'an unstable qsort (glibc 2.36 qsort is a stable merge sort; c_ensrank relies on first-ensemble members staying ahead in ties)'],
    assumptions=['qsort = stable insertion sort calling the real comparator', 'log uninterpreted (statistic compared on syntactically equal arguments)',
                 'AD(n, z) p-value routine stubbed by an arbitrary real in the symbolic run'],
    stubs=['qsort', 'malloc/free', 'log: uninterpreted function', 'AD: arbitrary value'],
)
