"""C10 — rank / PIT based diagnostics: c_ensrank and the Anderson-Darling statistic (engine A); dscore / pit (engine B parts)."""
from fractions import Fraction
import z3
from engine.llir.harness import Family, Scalar, Buf, sym_kernel, nat_kernel
from engine.llir.xr import XR
from engine.llir.interp import LOG
from engine.ops import *

EPS = 1e-6


class EnsRank(Family):
    prop = 'C10'
    name = 'ensrank'
    pkg = 'stat'
    kernel = 'c_ensrank'
    srcfile = 'stat/c_dscore.c'
    time_budget = {'quick': 250, 'thorough': 2400}

    def instances(self, tier):
        shapes = [(1, 1), (1, 2), (2, 1), (2, 2), (3, 1)] + ([(3, 2), (2, 3), (4, 1)] if tier == 'thorough' else [])
        # a large tie tolerance (0.25 > 0.5/m^2) as well: the 0 / 0.5 / 1 mapping of the comparison must not depend on it
        return [dict(nval=n, ncol=m) for n, m in shapes] + [dict(nval=2, ncol=2, eps=0.25), dict(nval=3, ncol=1, eps=0.25)] + \
               ([dict(nval=2, ncol=3, eps=0.25)] if tier == 'thorough' else [])

    def cost(self, inst):
        return 9 ** (inst['nval'] * inst['ncol'])

    def inputs(self, inst, S):
        n, m = inst['nval'], inst['ncol']
        sim = [[S.real('s%d_%d' % (i, j), -1000, 1000) for j in range(m)] for i in range(n)]
        flat = [v for r in sim for v in r]
        # values are either exactly tied or separated by more than the tie tolerance (property precondition)
        for a in range(len(flat)):
            for b in range(a + 1, len(flat)):
                d = flat[a].num - flat[b].num
                eps = Fraction(inst.get('eps', EPS))
                S.assume(z3.Or(d == 0, d > 2 * eps, d < -2 * eps))
        return dict(sim=sim)

    def args(self, inst, I):
        n, m = inst['nval'], inst['ncol']
        return [Scalar('double', inst.get('eps', EPS)), Scalar('i32', n), Scalar('i32', m), Buf('sim', 'double', [v for r in I['sim'] for v in r]),
                Buf('fmat', 'double', [0.0] * (n * n), out=True), Buf('ranks', 'double', [0.0] * n, out=True)]

    def spec(self, inst, I, O):
        n, m = inst['nval'], inst['ncol']
        sim = I['sim']
        res = [('ret0', O['ret'] == 0), ('sim-unchanged', forall(fsame(a, b) for a, b in zip(O['sim'], [v for r in sim for v in r])))]
        ranks = [1.0] * n
        for i1 in range(n):
            for i2 in range(i1 + 1, n):
                pooled = sim[i1] + sim[i2]
                # Weigel & Mason: sum over the first ensemble of pooled mid-ranks
                sumrank = 0.0
                for a in sim[i1]:
                    below = count(flt(x, a) for x in pooled)
                    equal = count(feq(x, a) for x in pooled)
                    # mid-rank = 1 + below + (equal-1)/2, kept in halves to stay in integers
                    sumrank = sumrank + 2 + 2 * below + equal - 1
                F2 = sumrank - m * (m + 1)          # = 2 m^2 F
                F = fmul(Fraction(1, 2 * m * m), tor(F2))
                res.append(('fmat[%d,%d]=midrank-comparison' % (i1, i2), fsame(O['fmat'][i1 * n + i2], F, self.tol)))
                u = fite(F2 < m * m, 0.0, fite(F2 > m * m, 1.0, 0.5))
                ranks[i1] = fadd(ranks[i1], u)
                ranks[i2] = fadd(ranks[i2], fsub(1.0, u))
        for i in range(n):
            res.append(('ranks[%d]' % i, fsame(O['ranks'][i], ranks[i], self.tol)))
        return res


class EnsRankReject(Family):
    prop = 'C10'
    name = 'ensrank-rejects'
    pkg = 'stat'
    kernel = 'c_ensrank'
    srcfile = 'stat/c_dscore.c'

    def instances(self, tier):
        return [dict(eps=0.0), dict(eps=-1.0)]

    def inputs(self, inst, S):
        return dict(sim=[S.real('a'), S.real('b')])

    def args(self, inst, I):
        return [Scalar('double', inst['eps']), Scalar('i32', 2), Scalar('i32', 1), Buf('sim', 'double', I['sim']),
                Buf('fmat', 'double', [0.0] * 4, out=True), Buf('ranks', 'double', [0.0] * 2, out=True)]

    def spec(self, inst, I, O):
        return [('bad-eps-rejected', O['ret'] != 0)]


class ADTest(Family):
    prop = 'C10'
    name = 'ad_test'
    pkg = 'stat'
    kernel = 'c_ad_test'
    srcfile = 'stat/c_andersondarling.c'
    validate_paths = 0   # the p-value routine is stubbed in the symbolic run (outside the claim)
    tol = 1e-7

    def instances(self, tier):
        return [dict(n=n) for n in ([1, 2, 3] + ([4] if tier == 'thorough' else []))]

    def cost(self, inst):
        return 10 ** inst['n']

    def inputs(self, inst, S):
        return dict(x=[S.real('u%d' % i, -2, 3, nan=True) for i in range(inst['n'])])

    def execute(self, ex, path, inst, I, srcfile):
        def AD(path_, fn, ins, a):
            path_.fresh += 1
            p = z3.Real('ADp!%d' % path_.fresh)
            return XR(p)
        ex.stubs = {'AD': AD}
        try:
            return sym_kernel(ex, path, 'c_ad_test', self.args(inst, I), srcfile)
        finally:
            ex.stubs = {}

    def args(self, inst, I):
        return [Scalar('i32', inst['n']), Buf('unifdata', 'double', I['x']), Buf('outputs', 'double', [0.0, 0.0], out=True)]

    def spec(self, inst, I, O):
        import math
        n = inst['n']
        x = I['x']
        S = O['unifdata']
        bad = exists(b_or(fisnan(v), flt(v, 0.0), fgt(v, 1.0)) for v in x)
        res = [('outside-[0,1]-or-nan-rejected', b_implies(bad, O['ret'] != 0)), ('valid-accepted', b_implies(b_not(bad), O['ret'] == 0))]
        ok = b_not(bad)
        # the buffer handed over is sorted in place: a sorted permutation of the input (complete data)
        res.append(('sorted', b_implies(ok, forall(fle(S[i], S[i + 1]) for i in range(n - 1)))))
        res.append(('permutation', b_implies(ok, forall(count(feq(s, v) for s in S) == count(feq(w, v) for w in x) for v in x))))
        # statistic: A2 = -n - (1/n) sum (2i+1) ln( x_(i) (1 - x_(n-1-i)) ) on the sorted sample; zero arguments excluded (log undefined)
        interior = forall(b_and(fgt(v, 0.0), flt(v, 1.0)) for v in x)
        if all(is_conc(s) for s in S):
            if all(0 < s < 1 for s in S):
                z = sum((2 * i + 1) * math.log(S[i] * (1 - S[n - 1 - i])) for i in range(n))
                res.append(('statistic', b_implies(b_and(ok, interior), fsame(O['outputs'][0], -n - z / n, self.tol))))
        else:
            z = 0.0
            for i in range(n):
                t = fmul(S[i], fsub(1.0, S[n - 1 - i]))
                z = fadd(z, fmul(float(2 * i + 1), XR(LOG(lift(t).val))))
            res.append(('statistic', b_implies(b_and(ok, interior), fsame(O['outputs'][0], fsub(float(-n), fmul(Fraction(1, n), z)), self.tol))))
        return res


FAMILIES = [EnsRank(), EnsRankReject(), ADTest()]
PARTS = []

META = dict(
    explanation='engine A: bounded symbolic execution of the LLVM IR of c_ensrank (pooled sort of each pair of ensembles through the real '
                'comparator, tie sequences) against the Weigel-Mason pooled mid-rank comparison and rank sums, for all values that are exactly tied '
                'or more than the tolerance apart; and of c_ad_test/ADtest (in-place sort, range/NaN rejection, statistic with log uninterpreted)',
    bounds=['ensrank: (forecasts x members) 1x1,1x2,2x1,2x2,3x1 quick; + 3x2, 2x3, 4x1 thorough; eps = 1e-6; |values| <= 1000',
            'Anderson-Darling: n <= 3 (thorough 4), values in [-2,3] or NaN'],
    outside=['p-values (Marsaglia polynomial/exp approximations, tabulated Cramer-von Mises values): numeric facts about constants, not encoded',
             'pit(random=False) (scipy percentileofscore)', 'cramer_von_mises_test (np.sort/np.interp over a table)', 'alpha',
             'an unstable qsort (glibc 2.36 qsort is a stable merge sort; c_ensrank relies on first-ensemble members staying ahead in ties)'],
    assumptions=['qsort = stable insertion sort calling the real comparator', 'log uninterpreted (statistic compared on syntactically equal arguments)',
                 'AD(n, z) p-value routine stubbed by an arbitrary real in the symbolic run'],
    stubs=['qsort', 'malloc/free', 'log: uninterpreted function', 'AD: arbitrary value'],
)


# ------------------------------------------------------------------------------------------------ engine B parts (pit, dscore)
import numpy as _np
import z3 as _z3
from engine.pysym import core as _core
from engine.pysym.core import SR as _SR, assume as _assume
from engine.pysym.runner import Case as _Case, close as _close, is_nan as _is_nan, run_cases as _run_cases
from engine.llir.xr import rv as _q

_EPS = 1e-10


def _conj(cs):
    r = True
    for c in cs:
        if isinstance(c, (bool, _np.bool_)):
            if not c:
                return False
            continue
        r = c if r is True else (r & c)
    return r


def _disj(cs):
    r = False
    for c in cs:
        if isinstance(c, (bool, _np.bool_)):
            if c:
                return True
            continue
        r = c if r is False else (r | c)
    return r


class Pit(_Case):
    """metrics.pit(random=True): jitter an arbitrary value in [-EPS, EPS)"""
    prop = 'C10'
    time_budget = {'quick': 90, 'thorough': 400}

    def __init__(self, n, m):
        self.n, self.m = n, m
        self.name = 'pit:random:n%d:m%d' % (n, m)
        self.params = dict(n=n, m=m)
        self.functions = ['hydrodiy.stat.metrics.pit']

    def modules(self):
        from hydrodiy.stat import metrics
        return [metrics]

    def inputs(self):
        def sv(nm):
            v = _SR(_z3.Real(nm))
            _assume(_z3.And(v.e >= -100, v.e <= 100))
            return v
        obs = [sv('y%d' % i) for i in range(self.n)]
        ens = [[sv('x%d_%d' % (i, j)) for j in range(self.m)] for i in range(self.n)]
        cst, censor = sv('cst'), sv('censor')
        _assume(_z3.And(cst.e >= 0, cst.e <= 1))
        # values either tied exactly or separated by much more than the jitter; the same for the censoring threshold
        flat = obs + [v for r in ens for v in r] + [censor]
        for a in range(len(flat)):
            for b in range(a + 1, len(flat)):
                d = flat[a].e - flat[b].e
                _assume(_z3.Or(d == 0, d >= _q(1e-6), d <= -_q(1e-6)))
        return dict(obs=obs, ens=ens, cst=cst, censor=censor)

    def run(self, I):
        from hydrodiy.stat import metrics
        sym = isinstance(I['obs'][0], _SR)
        if sym:
            obs = _core.symarray(I['obs'])
            ens = _np.empty((self.n, self.m), dtype=object)
            for i in range(self.n):
                for j in range(self.m):
                    ens[i, j] = I['ens'][i][j]
            ens = ens.view(_core.SymArray)
        else:
            obs, ens = _np.array(I['obs'], dtype=float), _np.array(I['ens'], dtype=float)
        pits, sudo = metrics.pit(obs, ens, random=True, cst=I['cst'], censor=I['censor'])
        return dict(pits=list(_np.asarray(pits, dtype=object).flat), sudo=[bool(b) for b in sudo])

    def spec(self, I, O, err):
        res = [('no-exception', err is None)]
        if err is not None:
            return res
        c, cen, m = I['cst'], I['censor'], self.m
        cc = (0.5 if (c > 0.5) else c) if not isinstance(c, _SR) else _SR(_z3.If(c.e > 0.5, _z3.RealVal('1/2'), c.e))
        for i in range(self.n):
            y = I['obs'][i]
            below = [x < y for x in I['ens'][i]]      # strictly below (values are tied exactly or clearly apart)
            tied = [x == y for x in I['ens'][i]]
            p = O['pits'][i]
            # pit = (k + 0.5 - c) / (1 - c + m) with k between the number of members clearly below and that number plus the ties
            opts = []
            for k in range(m + 1):
                nb = sum([(_z3.If(b.e, 1, 0) if hasattr(b, 'e') else int(bool(b))) for b in below])
                nt = sum([(_z3.If(b.e, 1, 0) if hasattr(b, 'e') else int(bool(b))) for b in tied])
                okk = (nb <= k) & (k <= nb + nt) if not (isinstance(nb, int) and isinstance(nt, int)) else (nb <= k <= nb + nt)
                if _z3.is_expr(okk):
                    okk = _core.sb(okk)
                val = _close(p * (1 - cc + m), k + 0.5 - cc, 1e-9, stol=1e-9)
                opts.append(_conj([okk, val]))
            res.append(('pit=(k+0.5-c)/(1-c+m)[%d]' % i, _disj(opts)))
            res.append(('pit-in-[0,1][%d]' % i, (p >= 0) & (p <= 1) if isinstance(p, _SR) else 0 <= p <= 1))
            want = _conj([y <= cen, _disj([x <= cen for x in I['ens'][i]])])
            got = O['sudo'][i]
            res.append(('pseudo-flag-iff-obs-and-a-member-at-or-below-censor[%d]' % i, want if got else (~want if not isinstance(want, (bool, _np.bool_)) else (not want))))
        return res


class DScore1(_Case):
    """metrics.dscore for single-member forecasts: (Pearson correlation of the argsort ranks + 1)/2"""
    prop = 'C10'

    def __init__(self, n):
        self.n = n
        self.name = 'dscore:single-member:n%d' % n
        self.params = dict(n=n)
        self.functions = ['hydrodiy.stat.metrics.dscore']

    def modules(self):
        from hydrodiy.stat import metrics
        return [metrics]

    def inputs(self):
        def sv(nm):
            v = _SR(_z3.Real(nm))
            _assume(_z3.And(v.e >= -100, v.e <= 100))
            return v
        obs, sim = [sv('y%d' % i) for i in range(self.n)], [sv('s%d' % i) for i in range(self.n)]
        for arr in (obs, sim):
            for a in range(self.n):
                for b in range(a + 1, self.n):
                    d = arr[a].e - arr[b].e
                    _assume(_z3.Or(d >= _q(1e-3), d <= -_q(1e-3)))     # distinct (ties are the kernel-level subject)
        return dict(obs=obs, sim=sim)

    def run(self, I):
        from hydrodiy.stat import metrics
        sym = isinstance(I['obs'][0], _SR)
        mk = _core.symarray if sym else (lambda xs: _np.array(xs, dtype=float))
        sim = mk(I['sim']).reshape(-1, 1)
        return dict(D=metrics.dscore(mk(I['obs']), sim))

    def spec(self, I, O, err):
        res = [('no-exception', err is None)]
        if err is not None:
            return res
        D, n = O['D'], self.n
        obs, sim = I['obs'], I['sim']
        pairs = [(i, j) for i in range(n) for j in range(i + 1, n)]
        same = _conj([((obs[i] < obs[j]) == (sim[i] < sim[j])) if isinstance(obs[i], _SR) else ((obs[i] < obs[j]) == (sim[i] < sim[j])) for i, j in pairs])
        opp = _conj([((obs[i] < obs[j]) == (sim[i] > sim[j])) if isinstance(obs[i], _SR) else ((obs[i] < obs[j]) == (sim[i] > sim[j])) for i, j in pairs])
        Df = float(D)
        res.append(('score-in-[0,1]', -1e-12 <= Df <= 1 + 1e-12))
        res.append(('perfect-ordering-scores-1', (abs(Df - 1) < 1e-9) if same is True else (True if same is False else (same == (abs(Df - 1) < 1e-9)) if False else _impl(same, abs(Df - 1) < 1e-9))))
        res.append(('inverse-ordering-scores-0', _impl(opp, abs(Df) < 1e-9)))
        return res


class Cvm(_Case):
    """metrics.cramer_von_mises_test on symbolic data in (0, 1): statistic = textbook formula whatever the order, p-value in [0, 1]
    (np.sort forks on every comparison, np.interp on the 500-row table forks by bisection)"""
    prop = 'C10'
    time_budget = {'quick': 150, 'thorough': 900}
    max_paths = 6000

    def __init__(self, n, tail=None):
        self.n, self.tail = n, tail
        self.name = 'cvm:n%d%s' % (n, ':stat>=%g' % tail if tail is not None else '')
        self.params = dict(n=n, tail=tail)
        self.functions = ['hydrodiy.stat.metrics.cramer_von_mises_test']

    def modules(self):
        from hydrodiy.stat import metrics
        return [metrics]

    def inputs(self):
        xs = []
        for i in range(self.n):
            v = _SR(_z3.Real('u%d' % i))
            _assume(_z3.And(v.e > 0, v.e < 1))
            xs.append(v)
        if self.tail is not None:
            # slice of the input space that reaches the upper end of the p-value table: ascending data, large statistic
            for a, b in zip(xs, xs[1:]):
                _assume(a.e <= b.e)
            n = self.n
            st = _z3.RealVal(1) / (12 * n) + sum(((_z3.RealVal(2 * i + 1) / (2 * n)) - xs[i].e) * ((_z3.RealVal(2 * i + 1) / (2 * n)) - xs[i].e) for i in range(n))
            _assume(st >= _q(self.tail))
        return dict(x=xs)

    def run(self, I):
        from hydrodiy.stat import metrics
        sym = isinstance(I['x'][0], _SR)
        data = _core.symarray(I['x']) if sym else _np.array(I['x'], dtype=float)
        stat, p = metrics.cramer_von_mises_test(data)
        unw = lambda v: v.item() if isinstance(v, _np.ndarray) and v.ndim == 0 else v
        return dict(stat=unw(stat), p=unw(p))

    def spec(self, I, O, err):
        res = [('no-exception', err is None)]
        if err is not None:
            return res
        xs, n = I['x'], self.n
        stat, p = O['stat'], O['p']
        sym = any(isinstance(v, _SR) for v in xs)
        if not sym:
            srt = sorted(float(v) for v in xs)
            want = 1. / 12 / n + sum(((2 * i + 1) / 2. / n - srt[i]) ** 2 for i in range(n))
            res.append(('statistic=textbook-formula', _close(float(stat), want, 1e-9)))
            res.append(('p-value-in-[0,1]', 0.0 <= float(p) <= 1.0))
            return res
        # symbolic: one conjunct per permutation that sorts the data (a disjunction over the n! orders, each guarded by its ordering condition)
        import itertools
        opts = []
        for perm in itertools.permutations(range(n)):
            guard = _z3.And(*[xs[perm[i]].e <= xs[perm[i + 1]].e for i in range(n - 1)]) if n > 1 else _z3.BoolVal(True)
            want = _z3.RealVal(1) / (12 * n) + sum(((_z3.RealVal(2 * i + 1) / (2 * n)) - xs[perm[i]].e) * ((_z3.RealVal(2 * i + 1) / (2 * n)) - xs[perm[i]].e) for i in range(n))
            st = stat.e if isinstance(stat, _SR) else _core.term(stat)
            # the code folds the plotting positions (2i-1)/(2n) and 1/(12n) in float arithmetic: equality up to 1e-12
            opts.append(_z3.Implies(guard, _z3.And(st - want <= _q(1e-12), want - st <= _q(1e-12))))
        res.append(('statistic=textbook-formula', _core.sb(_z3.And(*opts))))
        res.append(('p-value-in-[0,1]', ((p >= 0) & (p <= 1)) if isinstance(p, _SR) else (0.0 <= float(p) <= 1.0)))
        return res


def _impl(a, b):
    if isinstance(a, (bool, _np.bool_)):
        return b if a else True
    if isinstance(b, (bool, _np.bool_)):
        return True if b else ~a
    return ~a | b


def cases(tier):
    out = [Pit(1, 1), Pit(1, 2), Pit(2, 2)] + ([Pit(2, 3), Pit(3, 2)] if tier == 'thorough' else [])
    out += [DScore1(2), DScore1(3)] + ([DScore1(4)] if tier == 'thorough' else [])
    out += [Cvm(1), Cvm(2), Cvm(4, tail=0.98)] + ([Cvm(3), Cvm(5, tail=1.0)] if tier == 'thorough' else [])
    return out


def part_python(tier, seed, workdir):
    return _run_cases('C10', cases(tier), tier, seed)


def wrapper_dscore_pit(tier):
    """metrics.dscore (ensemble branch): the kernel gets the tolerance, a float64 copy of the forecasts and zeroed fmat / ranks buffers, and the
    score is (Pearson correlation of the observation ranks with the KERNEL's ranks + 1) / 2 - also for rank vectors with ties, which a second
    ranking would change.  metrics.pit: the pseudo-PIT flag at thresholds of any magnitude (the comparison 'at or below the threshold' must not
    be lost to rounding for |censor| >= 2).  Concrete scenarios."""
    import math
    import numpy as np
    from hydrodiy.stat import metrics as M
    from engine.contracts import Recorder, patched_module
    out = []
    for obs, franks in (([10., 2., 30., 25., 12.], [3., 1., 4., 4., 3.]), ([1., 2., 3., 4.], [1.5, 1.5, 3.5, 3.5]), ([5., 1., 3.], [3., 1., 2.]),
                        ([1., 2., 3., 4., 5., 6.], [2., 1., 2., 6., 5., 5.])):
        n = len(obs)
        sim = np.column_stack([np.array(obs) + 0.1, np.array(obs) - 0.2, np.array(obs)[::-1]])
        for eps in (1e-6, 0.01):
            def ens(c, franks=franks):
                c.raw_args[3][:] = franks
                return 0
            rec = Recorder({'ensrank': ens})
            with patched_module(M, 'c_hydrodiy_stat', rec):
                D = M.dscore(np.array(obs), sim, eps=eps)
            c = rec.calls[-1]
            oranks = [sorted(obs).index(v) for v in obs]
            mo, mf = sum(oranks) / n, sum(franks) / n
            cov = sum((a - mo) * (b - mf) for a, b in zip(oranks, franks))
            want = (cov / math.sqrt(sum((a - mo) ** 2 for a in oranks) * sum((b - mf) ** 2 for b in franks)) + 1) / 2
            tag = dict(obs=obs, kernel_ranks=franks, eps=eps)
            out.append(('dscore=(pearson(obs-ranks,kernel-ranks)+1)/2', abs(float(D) - want) <= 1e-12, dict(tag, got=float(D), want=want)))
            out.append(('ensrank-gets-tolerance-forecasts-and-zeroed-buffers', float(c.args[0]) == eps and c.args[1].dtype == np.float64 and
                        np.array_equal(c.args[1], sim) and c.args[2].shape == (n, n) and not c.args[2].any() and c.args[3].shape == (n,) and not c.args[3].any(), tag))
    for censor in (0.0, 0.5, 2.0, 5.0, -3.0, 1e6):
        ens = np.array([[censor - 1.0, censor + 1.0], [censor + 1.0, censor + 2.0], [censor, censor + 2.0], [censor + 1.0, censor + 3.0]])
        obs = np.array([censor, censor, censor - 1.0, censor + 0.5])
        np.random.seed(1)
        _, sudo = M.pit(obs, ens, random=True, censor=censor)
        # flagged exactly when the observation and at least one member are at or below the threshold
        out.append(('pseudo-pit-flag-at-or-below-threshold', [bool(b) for b in sudo] == [True, False, True, False], dict(censor=censor, got=[bool(b) for b in sudo])))
    return out


CONTRACTS = [wrapper_dscore_pit]


def contracts_part(tier, seed, workdir):
    from engine.contracts import run_contracts
    return run_contracts('C10', 'harness.C10', CONTRACTS, tier)


PARTS = [part_python, contracts_part]
META['explanation'] += ('; engine B: the real metrics.pit(random=True) with the jitter an arbitrary value of its range and symbolic observations, members, '
                        'plotting constant and censoring threshold (PIT in [0,1], = (k+0.5-c)/(1-c+m) with k the members below the observation, pseudo flag iff '
                        'the observation and at least one member are at or below the threshold) and metrics.dscore for single-member forecasts (score in '
                        '[0,1], 1 / 0 for perfectly / inversely ordered forecasts)')
META['bounds'] += ['pit: (forecasts x members) 1x1, 1x2, 2x2 (thorough 2x3, 3x2), values tied exactly or >= 1e-6 apart', 'dscore: 2-3 distinct single-member forecasts (thorough 4)']
