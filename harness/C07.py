"""C07 — cell numbers, rows/columns and coordinates are mutually consistent (engine A, XR + XReps)."""
import z3
from fractions import Fraction
from engine.llir.harness import Family, Scalar, Buf, KnownPred, make_call, native_call
from engine.llir import xr
from engine.llir.xr import XR
from engine.ops import *

NCOLS = [1, 2, 3, 5, 7, 64, 1000]
CSZ = [1e-4, 1e-3, 0.01, 0.025, 0.5, 1.0, 30.0, 1000.0, 1e4]
NROWS_MAX = 10 ** 6
MARGIN = Fraction(1, 10 ** 9)


def floor_div(a, b):
    """mathematical floor division for b > 0 (python ints or z3 Ints)"""
    if isinstance(a, int) and isinstance(b, int):
        return a // b
    return a / b if z3.is_expr(a) or z3.is_expr(b) else a // b


def imod(a, b):
    if isinstance(a, int) and isinstance(b, int):
        return a % b
    return a % b


def grid_inputs(inst, S, sym_csz=False):
    ncols = inst['ncols']
    nrows = S.int('nrows', 1, NROWS_MAX)
    if sym_csz:
        csz = S.real('csz', 1e-4, 1e4)
        k = S.real('kx', -10 ** 4, 10 ** 4)
        l = S.real('ky', -10 ** 4, 10 ** 4)
        # origins up to 1e4 cell sizes from zero: xll = kx * csz
        xll, yll = fmul(k, csz), fmul(l, csz)
    else:
        csz = inst['csz']
        xll = S.real('xll', -1e4 * csz, 1e4 * csz)
        yll = S.real('yll', -1e4 * csz, 1e4 * csz)
    return dict(nrows=nrows, ncols=ncols, xll=xll, yll=yll, csz=csz)


class Coord2Cell(Family):
    """a point strictly inside the footprint of cell c maps to c; a point outside the extent maps to -1"""
    prop = 'C07'
    name = 'coord2cell'
    pkg = 'gis'
    kernel = 'c_coord2cell'
    srcfile = 'gis/c_grid.c'

    def instances(self, tier):
        return [dict(ncols=n, csz=c) for n in NCOLS for c in CSZ]

    def inputs(self, inst, S):
        I = grid_inputs(inst, S)
        csz = inst['csz']
        # position of the point in cell units relative to the lower-left corner: u = iu + fu with fu away from the edges
        iu = S.int('iu', -10 ** 12, 10 ** 12)
        iv = S.int('iv', -10 ** 12, 10 ** 12)
        fu = S.real('fu', MARGIN, 1 - MARGIN)
        fv = S.real('fv', MARGIN, 1 - MARGIN)
        I.update(iu=iu, iv=iv, fu=fu, fv=fv)
        I['x'] = fadd(I['xll'], fmul(csz, fadd(lift(iu), fu)))
        I['y'] = fadd(I['yll'], fmul(csz, fadd(lift(iv), fv)))
        return I

    def args(self, inst, I):
        return [Scalar('i64', I['nrows']), Scalar('i64', I['ncols']), Scalar('double', I['xll']), Scalar('double', I['yll']),
                Scalar('double', I['csz']), Scalar('i64', 1), Buf('xycoords', 'double', [I['x'], I['y']]),
                Buf('idxcell', 'i64', [0], out=True)]

    def spec(self, inst, I, O):
        ncols, nrows, iu, iv = I['ncols'], I['nrows'], I['iu'], I['iv']
        if not z3.is_expr(iu):
            # concrete replay: recompute the integer position from the floats that were actually passed
            import math
            u = (Fraction(I['x']) - Fraction(I['xll'])) / Fraction(I['csz'])
            v = (Fraction(I['y']) - Fraction(I['yll'])) / Fraction(I['csz'])
            if min(u - math.floor(u), math.floor(u) + 1 - u, v - math.floor(v), math.floor(v) + 1 - v) < Fraction(1, 10 ** 7):
                return []   # rounding moved the point onto an edge: outside the property's precondition
            iu, iv = math.floor(u), math.floor(v)
        inside = b_and(iu >= 0, iu < ncols, iv >= 0, iv < nrows)
        cell = O['idxcell'][0]
        return [('inside-footprint->cell', b_implies(inside, cell == (nrows - 1 - iv) * ncols + iu)),
                ('outside-extent->-1', b_implies(b_not(inside), cell == -1)),
                ('ret0', O['ret'] == 0)]


class Coord2CellBorder(Coord2Cell):
    """points exactly ON a cell edge or on the border of the extent (exact reals, so "exactly" is meaningful): the answer is -1 or a
    cell whose closed footprint contains the point, and -1 when no cell's closed footprint does.  This is weaker than a convention for
    edges (the statement fixes none) but excludes wrapping a point on the right / top border into another row or beyond the grid."""
    name = 'coord2cell-border'

    def instances(self, tier):
        ncs = [1, 3, 64] if tier == 'quick' else NCOLS
        cs = [0.025, 1.0, 30.0] if tier == 'quick' else CSZ
        return [dict(ncols=n, csz=c, on=on) for n in ncs for c in cs for on in ('x', 'y', 'xy')]

    def inputs(self, inst, S):
        I = grid_inputs(inst, S)
        csz = inst['csz']
        iu = S.int('iu', -10 ** 12, 10 ** 12)
        iv = S.int('iv', -10 ** 12, 10 ** 12)
        fu = 0 if 'x' in inst['on'] else S.real('fu', MARGIN, 1 - MARGIN)
        fv = 0 if 'y' in inst['on'] else S.real('fv', MARGIN, 1 - MARGIN)
        I.update(iu=iu, iv=iv, fu=fu, fv=fv)
        I['x'] = fadd(I['xll'], fmul(csz, fadd(lift(iu), fu)))
        I['y'] = fadd(I['yll'], fmul(csz, fadd(lift(iv), fv)))
        return I

    def spec(self, inst, I, O):
        ncols, nrows, iu, iv = I['ncols'], I['nrows'], I['iu'], I['iv']
        cell = O['idxcell'][0]
        if not z3.is_expr(iu):
            # concrete replay: exact position of the floats that were actually passed, closed footprints
            import math
            u = (Fraction(I['x']) - Fraction(I['xll'])) / Fraction(I['csz'])
            v = (Fraction(I['y']) - Fraction(I['yll'])) / Fraction(I['csz'])
            if cell == -1:
                slack = Fraction(1, 10 ** 7)
                strictly_in = slack < u < ncols - slack and slack < v < nrows - slack and \
                    min(u - math.floor(u), math.floor(u) + 1 - u, v - math.floor(v), math.floor(v) + 1 - v) > slack
                return [('border->-1-or-touching-cell', not strictly_in), ('ret0', O['ret'] == 0)]
            ok = 0 <= cell < nrows * ncols
            if ok:
                col, rowb = cell % ncols, nrows - 1 - cell // ncols
                ok = col <= u <= col + 1 and rowb <= v <= rowb + 1
            return [('border->-1-or-touching-cell', ok), ('ret0', O['ret'] == 0)]
        cands = [(iu - a, iv - b) for a in ((0, 1) if 'x' in inst['on'] else (0,)) for b in ((0, 1) if 'y' in inst['on'] else (0,))]
        alts = [cell == -1]
        for (cu, cv) in cands:
            alts.append(b_and(cu >= 0, cu < ncols, cv >= 0, cv < nrows, cell == (nrows - 1 - cv) * ncols + cu))
        return [('border->-1-or-touching-cell', b_or(*alts)), ('ret0', O['ret'] == 0)]


class Cell2Coord(Family):
    prop = 'C07'
    name = 'cell2coord'
    pkg = 'gis'
    kernel = 'c_cell2coord'
    srcfile = 'gis/c_grid.c'

    def instances(self, tier):
        return [dict(ncols=n, csz=c) for n in NCOLS for c in (CSZ if tier == 'thorough' else [1e-4, 0.025, 1.0, 1e4])]

    def inputs(self, inst, S):
        I = grid_inputs(inst, S)
        I['cell'] = S.int('cell', -2 ** 62, 2 ** 62)
        return I

    def args(self, inst, I):
        return [Scalar('i64', I['nrows']), Scalar('i64', I['ncols']), Scalar('double', I['xll']), Scalar('double', I['yll']),
                Scalar('double', I['csz']), Scalar('i64', 1), Buf('idxcell', 'i64', [I['cell']]),
                Buf('xycoords', 'double', [0.0, 0.0], out=True)]

    def spec(self, inst, I, O):
        ncols, nrows, c, csz = I['ncols'], I['nrows'], I['cell'], I['csz']
        valid = b_and(c >= 0, c < nrows * ncols)
        col = imod(c, ncols)
        row = floor_div(c - col, ncols)
        x, y = O['xycoords']
        ex = fadd(I['xll'], fmul(csz, fadd(tor(col), 0.5)))
        ey = fadd(I['yll'], fmul(csz, fadd(tor(nrows - 1 - row), 0.5)))
        return [('centre-x', b_implies(valid, fsame(x, ex, self.tol))), ('centre-y', b_implies(valid, fsame(y, ey, self.tol))),
                ('invalid->nan', b_implies(b_not(valid), b_and(fisnan(x), fisnan(y)))),
                ('cell-unchanged', O['idxcell'][0] == c), ('ret0', O['ret'] == 0)]


class RoundTrip(Family):
    """Rounding lemma behind coord2cell(cell2coord(c)) == c, decided as pure nonlinear real arithmetic (XReps: every
    operation result times (1+d), |d| <= 2^-53).  The real getcoord is run for column `col` / row `row` (getnxy stubbed to return
    them; its integer logic is covered exactly by the cell2coord / cell2rowcol families), its output is fed to the real
    c_coord2cell, and the two quotients that c_coord2cell truncates must lie strictly inside (col, col+1) and
    (nrows-1-row, nrows-row) with a margin of 0.25: truncation then returns exactly col and nrows-1-row, and the exact
    integer logic after the truncation is what the coord2cell family verifies.  col, row, nrows are real-valued here
    (a superset of the integers), which keeps the query in QF_NRA."""
    prop = 'C07'
    name = 'roundtrip-eps'
    pkg = 'gis'
    kernel = 'getcoord'
    srcfile = 'gis/c_grid.c'
    eps = True
    validate_paths = 0

    def instances(self, tier):
        out = [dict(csz=c, sym=False) for c in CSZ]
        out += [dict(csz=None, sym=True)]
        return out

    def inputs(self, inst, S):
        I = grid_inputs(dict(ncols=0, csz=inst['csz']), S, sym_csz=inst['sym'])
        nrows = z3.Real('nrows_r')
        col = z3.Real('col_r')
        row = z3.Real('row_r')
        S.assume(z3.And(nrows >= 1, nrows <= NROWS_MAX, col >= 0, col <= NROWS_MAX, row >= 0, row <= nrows - 1))
        I.update(nrows=nrows, col=col, row=row)
        return I

    def execute(self, ex, path, inst, I, srcfile):
        from engine.llir.interp import Ptr, Obj
        rec = []

        def getnxy(path_, fn, ins, a):
            nxy = a[2]
            nxy.obj.cells[nxy.off] = I['col']
            nxy.obj.cells[nxy.off + 1] = I['row']
            return 0

        class Done(Exception):
            pass

        def hook(path_, v, t2):
            rec.append(v)
            if len(rec) == 2:
                raise Done()
            return 0

        def fhook(path_, v, up):
            rec.append(v)
            if len(rec) == 2:
                raise Done()
            return v
        ex.stubs = {'getnxy': getnxy}
        ex.fptosi_hook = hook
        ex.floor_hook = fhook
        try:
            xy = Obj('coord', 'double', [None, None], 'arg')
            ex.run(path, 'getcoord', [I['nrows'], 1, I['xll'], I['yll'], I['csz'], 0, Ptr(xy, 0)], srcfile)
            out = Obj('idxcell', 'i64', [0], 'arg')
            ex.run(path, 'c_coord2cell', [I['nrows'], 1, I['xll'], I['yll'], I['csz'], 1, Ptr(xy, 0), Ptr(out, 0)], srcfile)
        except Done:
            pass
        finally:
            ex.stubs = {}
            ex.fptosi_hook = None
            ex.floor_hook = None
        return {'ret': 0, 'q': rec, 'xy': xy.cells}

    def native(self, ctx, inst, Ic):
        # replay through the two public kernels with the nearest integer grid position
        import math
        nrows = max(1, int(round(Ic['nrows'])))
        col = int(round(Ic['col']))
        row = min(nrows - 1, max(0, int(round(Ic['row']))))
        ncols = col + 1
        cell = row * ncols + col
        g = [Scalar('i64', nrows), Scalar('i64', ncols), Scalar('double', Ic['xll']), Scalar('double', Ic['yll']),
             Scalar('double', Ic['csz'])]
        f1 = _Args(g + [Scalar('i64', 1), Buf('idxcell', 'i64', [cell]), Buf('xycoords', 'double', [0.0, 0.0], out=True)],
                   'c_cell2coord', 'gis')
        n1, O1, t1 = native_call(ctx, f1, inst, Ic)
        if n1['status'] != 'ok':
            return n1, {}, t1
        f2 = _Args(g + [Scalar('i64', 1), Buf('xycoords', 'double', O1['xycoords']), Buf('idxcell', 'i64', [0], out=True)],
                   'c_coord2cell', 'gis')
        n2, O2, t2 = native_call(ctx, f2, inst, Ic)
        return n2, {'ret': O2['ret'], 'cell': cell, 'cell_back': O2['idxcell'][0]}, t1 + t2

    def spec(self, inst, I, O):
        if 'cell_back' in O:
            return [('roundtrip', O['cell_back'] == O['cell'])]
        col, rowb = I['col'], I['nrows'] - 1 - I['row']
        q = Fraction(1, 4)
        qs = O['q']
        from z3 import z3util

        def within(v, k):
            return b_and(fgt(v, lift(k + q)), flt(v, lift(k + 1 - q)))

        def mentions(v, names):
            vs = {str(x) for t in (v.num, v.den) if t is not None for x in z3util.get_vars(t)}
            return bool(vs & names)
        # the first two quotients the kernel quantises (by floor or by integer conversion, in either order) are the column
        # and the row counted from the bottom, each with a margin of a quarter cell; which is which is read off the origin
        # variable the term mentions
        if len(qs) < 2:
            return [('two-quantisations', False)]
        if mentions(qs[0], {'xll', 'kx'}):
            qx, qy = qs[0], qs[1]
        else:
            qx, qy = qs[1], qs[0]
        return [('two-quantisations', True), ('roundtrip-x', within(qx, col)), ('roundtrip-y', within(qy, rowb))]


class _Args:
    """adapter: a fixed argument list presented through the Family.args interface"""

    def __init__(self, a, kernel=None, pkg=None):
        self._a, self.kernel, self.pkg = a, kernel, pkg

    def args(self, inst, I):
        return self._a


class Cell2RowCol(Family):
    prop = 'C07'
    name = 'cell2rowcol'
    pkg = 'gis'
    kernel = 'c_cell2rowcol'
    srcfile = 'gis/c_grid.c'

    def instances(self, tier):
        return [dict(ncols=n) for n in NCOLS]

    def inputs(self, inst, S):
        return dict(nrows=S.int('nrows', 1, NROWS_MAX), ncols=inst['ncols'], cell=S.int('cell', -2 ** 62, 2 ** 62))

    def args(self, inst, I):
        return [Scalar('i64', I['nrows']), Scalar('i64', I['ncols']), Scalar('i64', 1), Buf('idxcell', 'i64', [I['cell']]),
                Buf('rowcols', 'i64', [0, 0], out=True)]

    def spec(self, inst, I, O):
        ncols, nrows, c = I['ncols'], I['nrows'], I['cell']
        valid = b_and(c >= 0, c < nrows * ncols)
        r, k = O['rowcols']
        return [('row-major', b_implies(valid, b_and(r * ncols + k == c, k >= 0, k < ncols, r >= 0, r < nrows))),
                ('invalid->-1', b_implies(b_not(valid), b_and(r == -1, k == -1))), ('ret0', O['ret'] == 0)]


class Neighbours(Family):
    prop = 'C07'
    name = 'neighbours'
    pkg = 'gis'
    kernel = 'c_neighbours'
    srcfile = 'gis/c_grid.c'

    def instances(self, tier):
        return [dict(ncols=n) for n in NCOLS]

    def inputs(self, inst, S):
        return dict(nrows=S.int('nrows', 1, NROWS_MAX), ncols=inst['ncols'], cell=S.int('cell', -2 ** 62, 2 ** 62))

    def args(self, inst, I):
        return [Scalar('i64', I['nrows']), Scalar('i64', I['ncols']), Scalar('i64', I['cell']),
                Buf('neighbours', 'i64', [0] * 9, out=True)]

    def spec(self, inst, I, O):
        ncols, nrows, c = I['ncols'], I['nrows'], I['cell']
        valid = b_and(c >= 0, c < nrows * ncols)
        col = imod(c, ncols)
        row = floor_div(c - col, ncols)
        res = [('invalid->error', b_implies(b_not(valid), O['ret'] > 0)), ('valid->0', b_implies(valid, O['ret'] == 0))]
        for dy in (-1, 0, 1):
            for dx in (-1, 0, 1):
                k = (dx + 1) + 3 * (dy + 1)
                n = O['neighbours'][k]
                if dx == 0 and dy == 0:
                    res.append(('centre=-1', b_implies(valid, n == -1)))
                    continue
                inside = b_and(col + dx >= 0, col + dx < ncols, row + dy >= 0, row + dy < nrows)
                res.append(('neighbour[%d]' % k, b_implies(valid, n == iite(inside, (row + dy) * ncols + col + dx, -1))))
        return res


def derived_properties(tier):
    """Grid.xvalues / yvalues ask cell2coord for exactly the first cell of every column / row (so they have ncols / nrows entries, for
    one-row and one-column grids and for cell sizes that are not representable in binary too); xlim / ylim are the extent"""
    import numpy as np
    from hydrodiy.gis import grid as G
    from engine.contracts import Recorder, patched_module
    out = []

    def cell2coord(c):
        nrows, ncols, xll, yll, csz, cells, xy = c.raw_args
        for k, cell in enumerate(cells):
            xy[k, 0] = xll + csz * (cell % ncols + 0.5)
            xy[k, 1] = yll + csz * (nrows - 1 - cell // ncols + 0.5)
        return 0
    for nr in (1, 2, 3, 7):
        for nc in (1, 2, 3, 7):
            for csz, xll, yll in ((0.05, 0.1, -3.3), (0.1, 0.1, 0.1), (1e-4, 130.0, -20.0), (2.0, 130.0, -40.0)):
                g = G.Grid('g', nc, nr, cellsize=csz, xllcorner=xll, yllcorner=yll)
                rec = Recorder({'cell2coord': cell2coord})
                with patched_module(G, 'c_hydrodiy_gis', rec):
                    xv, yv = g.xvalues, g.yvalues
                tag = dict(nrows=nr, ncols=nc, cellsize=csz, xll=xll, yll=yll)
                asked = [list(map(int, c.args[5])) for c in rec.calls if c.name == 'cell2coord']
                out.append(('xvalues-asks-first-cell-of-every-column', len(asked) == 2 and asked[0] == list(range(nc)), dict(tag, got=asked[:1])))
                out.append(('yvalues-asks-first-cell-of-every-row', len(asked) == 2 and asked[1] == list(range(0, nr * nc, nc)), dict(tag, got=asked[1:2])))
                out.append(('xvalues=column-centres', len(xv) == nc and np.allclose(xv, xll + csz * (np.arange(nc) + 0.5), rtol=1e-12, atol=0), dict(tag, n=len(xv))))
                out.append(('yvalues=row-centres', len(yv) == nr and np.allclose(yv, yll + csz * (nr - 1 - np.arange(nr) + 0.5), rtol=1e-12, atol=0), dict(tag, n=len(yv))))
                out.append(('xlim-ylim=extent', g.xlim == (xll, xll + nc * csz) and g.ylim == (yll, yll + nr * csz), tag))
    return out


def results_are_independent(tier):
    """answers of Grid.neighbours / cell2coord / cell2rowcol / coord2cell are fresh arrays: a later call does not change an earlier answer
    (real kernels; concrete)"""
    import numpy as np
    from hydrodiy.gis import grid as G
    out = []
    for (nr, nc) in ((3, 3), (2, 5), (4, 1)):
        g = G.Grid('g', nc, nr, cellsize=0.5, xllcorner=-1.0, yllcorner=2.0)
        n = nr * nc
        for name, f, a1, a2 in (('neighbours', g.neighbours, 0, n - 1), ('cell2coord', g.cell2coord, [0, 1], [n - 1, 0]),
                                ('cell2rowcol', g.cell2rowcol, [0, 1], [n - 1, 0]), ('coord2cell', g.coord2cell, [[-0.9, 2.1]], [[-0.9 + 0.5 * (nc - 1), 2.1 + 0.5 * (nr - 1)]])):
            r1 = f(a1)
            keep = np.array(r1, copy=True)
            r2 = f(a2)
            again = f(a1)
            out.append(('earlier-answer-unchanged-by-a-later-call', bool(np.array_equal(r1, keep, equal_nan=True)) and not np.shares_memory(r1, r2)
                        and bool(np.array_equal(again, keep, equal_nan=True)), dict(function=name, nrows=nr, ncols=nc)))
    return out


CONTRACTS = [derived_properties, results_are_independent]


def contracts_part(tier, seed, workdir):
    from engine.contracts import run_contracts
    return run_contracts('C07', 'harness.C07', CONTRACTS, tier)


FAMILIES = [Coord2Cell(), Coord2CellBorder(), Cell2Coord(), RoundTrip(), Cell2RowCol(), Neighbours()]
PARTS = [contracts_part]

META = dict(
    explanation='bounded symbolic execution of the LLVM IR of c_coord2cell / c_cell2coord / c_cell2rowcol / c_neighbours with symbolic nrows, '
                'origin, point and cell number; logic decided over exact reals (XR), the coord2cell(cell2coord(c)) round trip under the '
                'standard rounding-error model (XReps: every operation result multiplied by (1+d), |d|<=2^-53)',
    bounds=['ncols in {1,2,3,5,7,64,1000}, nrows symbolic in [1,1e6], cell size from nine magnitudes 1e-4..1e4 (symbolic in [1e-4,1e4] for the '
            'round trip), origins up to 1e4 cell sizes from zero, points up to 1e12 cells away from the corner and at least 1e-9 cell sizes from '
            'cell edges (coord2cell) or exactly on a cell edge / extent border (coord2cell-border: -1 or a touching cell), cell numbers over +-2^62'],
    outside=['ncols outside the listed values', 'xvalues/yvalues/xlim/ylim are numpy one-liners over cell2coord: only validated by a recorded-call scenario over a list of geometries'],
    assumptions=['sitofp of cell indices is exact (|index| < 2^53)', 'XR: exact reals; XReps sound for normal-range doubles'],
    stubs=[],
)
