"""C15 — point-in-polygon answers agree with the even-odd rule (engine A, XR; per-path polynomial real arithmetic)."""
from fractions import Fraction
import z3
from engine.llir.harness import Family, Scalar, Buf, split_paths
from engine.llir.xr import XR
from engine.ops import *

ATOL = 1e-8
SEP = Fraction(1, 10 ** 6)


def raw(v):
    """z3 real term of a symbolic double, exact Fraction of a concrete one"""
    if isinstance(v, XR):
        return v.num
    return Fraction(v)


def rabs(t):
    if z3.is_expr(t):
        return z3.If(t >= 0, t, -t)
    return abs(t)


def rmin(a, b):
    if z3.is_expr(a) or z3.is_expr(b):
        return z3.If(a <= b, a, b)
    return min(a, b)


def rmax(a, b):
    if z3.is_expr(a) or z3.is_expr(b):
        return z3.If(a >= b, a, b)
    return max(a, b)


def crossing_parity(px, py, x, y):
    """parity of the number of polygon edges crossed by the ray from (x, y) towards +x, with the half-open rule
    min(y1,y2) < y <= max(y1,y2); written with cross-multiplication (no division)"""
    n = len(px)
    par = False
    for i in range(n):
        x1, y1, x2, y2 = px[i], py[i], px[(i + 1) % n], py[(i + 1) % n]
        lhs = (x - x1) * (y2 - y1)
        rhs = (y - y1) * (x2 - x1)
        # upward edge: y1 < y <= y2 and the point left of the crossing; downward edge: y2 < y <= y1 likewise
        c = b_or(b_and(y1 < y, y <= y2, lhs < rhs), b_and(y2 < y, y <= y1, lhs > rhs))
        par = b_not(b_eq(par, c))     # xor
    return par


class Inside(Family):
    prop = 'C15'
    name = 'inside'
    pkg = 'gis'
    kernel = 'c_inside'
    srcfile = 'gis/c_points_inside_polygon.c'
    time_budget = {'quick': 250, 'thorough': 2400}
    fork_minmax = True

    def instances(self, tier):
        out = split_paths(dict(n=3), 3, 4)
        # a self-overlapping polygon (pentagram, vertices pinned, the point symbolic): its centre has winding number 2 and is OUTSIDE under the
        # even-odd rule the property states
        out.append(dict(n=5, pin=[[0, 8], [5, -7], [-8, 2], [8, 2], [-5, -7]]))
        if tier == 'thorough':
            out += split_paths(dict(n=4), 6, 4)
        return out

    def cost(self, inst):
        return (6 ** inst['n'] / (1 << inst.get('_split', [0, 0])[1])) if not inst.get('pin') else 200

    def inputs(self, inst, S):
        n = inst['n']
        px = [S.real('px%d' % i, -100, 100) for i in range(n)]
        py = [S.real('py%d' % i, -100, 100) for i in range(n)]
        x, y = S.real('x', -200, 200), S.real('y', -200, 200)
        X, Y = [v.num for v in px], [v.num for v in py]
        for i, (a, b) in enumerate(inst.get('pin') or []):
            S.assume(X[i] == a)
            S.assume(Y[i] == b)
        # vertex coordinates pairwise equal or much further apart than the absolute tolerance 1e-8
        for i in range(n):
            for j in range(i + 1, n):
                for A in (X, Y):
                    d = A[i] - A[j]
                    S.assume(z3.Or(d == 0, d > SEP, d < -SEP))
        # the point is level with a vertex or clearly above/below it
        for i in range(n):
            d = y.num - Y[i]
            S.assume(z3.Or(d == 0, d > SEP, d < -SEP))
        # ... and away from the boundary: off the supporting line of every edge whose closed y-range contains it (by a margin
        # relative to the edge), and off every horizontal edge at its level
        for i in range(n):
            x1, y1, x2, y2 = X[i], Y[i], X[(i + 1) % n], Y[(i + 1) % n]
            within = z3.And(rmin(y1, y2) <= y.num, y.num <= rmax(y1, y2))
            off = rabs((x.num - x1) * (y2 - y1) - (y.num - y1) * (x2 - x1)) > SEP * rabs(y2 - y1)
            S.assume(z3.Implies(z3.And(within, y1 != y2), off))
            S.assume(z3.Implies(z3.And(y1 == y2, y.num == y1), z3.Or(x.num < rmin(x1, x2) - SEP, x.num > rmax(x1, x2) + SEP)))
        return dict(px=px, py=py, x=x, y=y)

    def args(self, inst, I):
        n = inst['n']
        poly = []
        for a, b in zip(I['px'], I['py']):
            poly += [a, b]
        xmin, xmax, ymin, ymax = I['px'][0], I['px'][0], I['py'][0], I['py'][0]
        for a, b in zip(I['px'][1:], I['py'][1:]):
            xmin, xmax, ymin, ymax = fmin(xmin, a), fmax(xmax, a), fmin(ymin, b), fmax(ymax, b)
        # the Cython wrapper computes the extent from the vertices and gutils zero-initialises the answer
        return [Scalar('i32', 0), Scalar('i32', 1), Buf('points', 'double', [I['x'], I['y']]), Scalar('i32', n),
                Buf('polygon', 'double', poly), Scalar('double', ATOL), Buf('xlim', 'double', [xmin, xmax]),
                Buf('ylim', 'double', [ymin, ymax]), Buf('inside', 'i32', [0], out=True)]

    def spec(self, inst, I, O):
        px, py = [raw(v) for v in I['px']], [raw(v) for v in I['py']]
        par = crossing_parity(px, py, raw(I['x']), raw(I['y']))
        return [('ret0', O['ret'] == 0), ('inside=even-odd', O['inside'][0] == iite(par, 1, 0)),
                ('polygon-unchanged', forall(fsame(a, b) for a, b in zip(O['polygon'][0::2], I['px'])))]


class EdgeStep(Family):
    """Loop-body lemma for ANY number of vertices: starting the edge loop of the real c_inside at an arbitrary state (arbitrary
    previous vertex p1, arbitrary running parity, arbitrary point and next vertex), one iteration toggles the parity iff the
    edge p1->p2 is crossed under the half-open rule, and advances p1 := p2.  With p1 = vertex 0 and parity 0 at loop entry
    (checked by the whole-kernel runs) induction over the edges gives parity of the crossing number for every n."""
    prop = 'C15'
    name = 'edge-step-lemma'
    pkg = 'gis'
    kernel = 'c_inside'
    srcfile = 'gis/c_points_inside_polygon.c'
    fork_minmax = True
    validate_paths = 0

    def instances(self, tier):
        return [dict(ivert=i) for i in (1, 2, 3)]

    def inputs(self, inst, S):
        v = {k: S.real(k, -100, 100) for k in ('p1x', 'p1y', 'p2x', 'p2y')}
        x, y = S.real('x', -200, 200), S.real('y', -200, 200)
        x1, y1, x2, y2 = v['p1x'].num, v['p1y'].num, v['p2x'].num, v['p2y'].num
        for d in (x1 - x2, y1 - y2, y.num - y1, y.num - y2):
            S.assume(z3.Or(d == 0, d > SEP, d < -SEP))
        within = z3.Or(z3.And(y1 <= y.num, y.num <= y2), z3.And(y2 <= y.num, y.num <= y1))
        e = (x.num - x1) * (y2 - y1) - (y.num - y1) * (x2 - x1)
        dy = y2 - y1
        off = z3.Or(z3.And(dy > 0, z3.Or(e > SEP * dy, e < -SEP * dy)), z3.And(dy < 0, z3.Or(e > -SEP * dy, e < SEP * dy)))
        S.assume(z3.Implies(z3.And(within, y1 != y2), off))
        S.assume(z3.Implies(z3.And(y1 == y2, y.num == y1), z3.Or(x.num < rmin(x1, x2) - SEP, x.num > rmax(x1, x2) + SEP)))
        other = [S.real('q%d' % i, -100, 100) for i in range(4)]
        return dict(x=x, y=y, par=S.int('par', 0, 1), other=other, **v)

    def execute(self, ex, path, inst, I, srcfile):
        from engine.llir.interp import Ptr, Obj
        iv = inst['ivert']
        slot = iv % 3
        poly = [None] * 6
        rest = list(I['other'])
        for s in range(3):
            if s == slot:
                poly[2 * s], poly[2 * s + 1] = I['p2x'], I['p2y']
            else:
                poly[2 * s], poly[2 * s + 1] = rest.pop(), rest.pop()
        P = Obj('polygon', 'double', poly, 'arg')
        pts = Obj('points', 'double', [I['x'], I['y']], 'arg')
        ins = Obj('inside', 'i32', [I['par']], 'arg')
        xl, yl = Obj('xlim', 'double', [0.0, 0.0], 'arg'), Obj('ylim', 'double', [0.0, 0.0], 'arg')
        args = [0, 1, Ptr(pts, 0), 3, Ptr(P, 0), ATOL, Ptr(xl, 0), Ptr(yl, 0), Ptr(ins, 0)]
        loc = ex.run_fragment(path, 'c_inside', args,
                              dict(x=I['x'], y=I['y'], p1x=I['p1x'], p1y=I['p1y'], ivert=iv, ipt=0),
                              lambda b, instrs, f: any(i.op == 'srem' for i in instrs) and any(
                                  i.op == 'load' and i.a.kind == 'reg' and f.vars.get(i.a.v) == 'ivert' for i in instrs), 'ivert', srcfile)
        return {'ret': 0, 'ended': loc['__ended'], 'p1x': loc['p1x'], 'p1y': loc['p1y'], 'inside': ins.cells[0]}

    def native(self, ctx, inst, Ic):
        # replay on the whole kernel with the degenerate polygon (p1, p2, p1): its edges are p1->p2, p2->p1 and a null edge,
        # so the answer must be even (0) whatever the point; a wrong toggle on p1->p2 not mirrored on p2->p1 shows up
        from engine.llir.harness import nat_kernel
        poly = [Ic['p1x'], Ic['p1y'], Ic['p2x'], Ic['p2y'], Ic['p1x'], Ic['p1y']]
        xs, ys = poly[0::2], poly[1::2]
        a = [Scalar('i32', 0), Scalar('i32', 1), Buf('points', 'double', [Ic['x'], Ic['y']]), Scalar('i32', 3), Buf('polygon', 'double', poly),
             Scalar('double', ATOL), Buf('xlim', 'double', [min(xs), max(xs)]), Buf('ylim', 'double', [min(ys), max(ys)]),
             Buf('inside', 'i32', [0], out=True)]
        n, O, t = nat_kernel(ctx, 'gis', 'c_inside', a)
        return n, {'ret': O.get('ret'), 'degenerate': O.get('inside', [None])[0]}, t

    def spec(self, inst, I, O):
        if 'degenerate' in O:
            return [('degenerate-polygon-has-empty-interior', O['degenerate'] == 0)]
        x1, y1, x2, y2, x, y = (raw(I[k]) for k in ('p1x', 'p1y', 'p2x', 'p2y', 'x', 'y'))
        lhs = (x - x1) * (y2 - y1)
        rhs = (y - y1) * (x2 - x1)
        cross = b_or(b_and(y1 < y, y <= y2, lhs < rhs), b_and(y2 < y, y <= y1, lhs > rhs))
        return [('iteration-completes', O['ended'] == 'stop'),
                ('toggles-iff-edge-crossed', O['inside'] == iite(cross, 1 - I['par'], I['par'])),
                ('advances-p1', b_and(fsame(O['p1x'], I['p2x']), fsame(O['p1y'], I['p2y'])))]


def wrapper_points_inside(tier):
    """gutils.points_inside_polygon hands the kernel a zeroed answer vector (also when the caller supplies a used one), the points and
    the polygon unchanged; Grid.cells_inside_polygon tests the centre of EVERY cell of the grid"""
    import numpy as np
    from hydrodiy.gis import gutils, grid as G
    from engine.contracts import Recorder, patched_module
    out = []
    poly = np.array([[0.2, 0.1], [3.7, 0.4], [2.2, 2.9]])
    pts = np.array([[1.0, 1.0], [9.0, 9.0], [2.0, 0.5]])
    for given in (None, 'ones'):
        rec = Recorder()
        inside = None if given is None else np.ones(3, dtype=np.int32)
        with patched_module(gutils, 'c_hydrodiy_gis', rec):
            gutils.points_inside_polygon(pts, poly, inside=inside)
        c = rec.calls[-1]
        tag = dict(supplied=given)
        out.append(('answer-vector-zeroed', np.all(c.args[4] == 0) and len(c.args[4]) == 3, dict(tag, got=list(map(int, c.args[4])))))
        out.append(('points-and-polygon-passed', np.array_equal(c.args[2], pts) and np.array_equal(c.args[3], poly), tag))
        out.append(('atol-default', float(c.args[0]) == 1e-8, tag))
    # coordinates reach the kernel bit for bit at any scale (no snapping / rounding in the wrapper)
    for scale in (1e-4, 1.0, 1e5):
        p2, q2 = poly * scale * 1.000000123456789, pts * scale * 1.000000123456789
        rec = Recorder()
        with patched_module(gutils, 'c_hydrodiy_gis', rec):
            gutils.points_inside_polygon(q2, p2)
        c = rec.calls[-1]
        out.append(('coordinates-passed-bit-for-bit', np.array_equal(c.args[2], q2) and np.array_equal(c.args[3], p2), dict(scale=scale)))
    # the cell centres tested are those of the grid AS IT IS at the time of the call (moved / re-sized grid, clone)
    g = G.Grid('g', 3, 2, cellsize=0.5, xllcorner=-1.0, yllcorner=2.0)
    seq = [('first', g, -1.0, 2.0, 0.5)]
    g2 = g.clone()
    for step in ('moved-clone', 'resized-clone'):
        rec = Recorder()
        with patched_module(gutils, 'c_hydrodiy_gis', rec):
            try:
                g.cells_inside_polygon(poly)
                if step == 'moved-clone':
                    g2 = g.clone()
                    g2.xllcorner = 4.0
                    g2.yllcorner = -3.0
                    xll, yll, csz = 4.0, -3.0, 0.5
                else:
                    g2 = G.Grid('h', 3, 2, cellsize=0.25, xllcorner=-1.0, yllcorner=2.0)
                    xll, yll, csz = -1.0, 2.0, 0.25
                g2.cells_inside_polygon(poly)
            except Exception as e:
                pass
        calls = [c for c in rec.calls if c.name == 'points_inside_polygon']
        want = np.array([[xll + csz * (k % 3 + 0.5), yll + csz * (2 - 1 - k // 3 + 0.5)] for k in range(6)])
        out.append(('cell-centres-of-the-current-geometry', len(calls) == 2 and calls[1].args[2].shape == want.shape and np.allclose(calls[1].args[2], want), dict(step=step)))
    for (nr, nc) in [(2, 2), (2, 5), (5, 2), (1, 4)]:
        g = G.Grid('g', nc, nr, cellsize=0.5, xllcorner=-1.0, yllcorner=2.0)
        rec = Recorder()
        with patched_module(gutils, 'c_hydrodiy_gis', rec):
            try:
                g.cells_inside_polygon(poly)
            except Exception:
                pass
        c = [c for c in rec.calls if c.name == 'points_inside_polygon'][-1]
        want = np.array([[-1.0 + 0.5 * (k % nc + 0.5), 2.0 + 0.5 * (nr - 1 - k // nc + 0.5)] for k in range(nr * nc)])
        out.append(('every-cell-centre-tested', c.args[2].shape == want.shape and np.allclose(c.args[2], want), dict(nrows=nr, ncols=nc, got_points=len(c.args[2]))))
    return out


CONTRACTS = [wrapper_points_inside]


def contracts_part(tier, seed, workdir):
    from engine.contracts import run_contracts
    return run_contracts('C15', 'harness.C15', CONTRACTS, tier)


FAMILIES = [Inside(), EdgeStep()]
PARTS = [contracts_part]

META = dict(
    explanation='bounded symbolic execution of the LLVM IR of c_inside with all vertex and point coordinates symbolic and the extent computed as the '
                'Cython wrapper does; on every feasible path (each fixes every comparison the kernel makes, so the query is a conjunction of '
                'polynomial inequalities) z3/nlsat decides that the answer equals the parity of the crossing number under the half-open rule '
                'min(y1,y2) < y <= max(y1,y2); orientation, start vertex, horizontal/vertical/collinear edges, repeated coordinates and points level '
                'with a vertex are valuations of the same symbolic polygon',
    bounds=['whole kernel: polygons with 3 vertices (thorough 4); edge-step lemma: one arbitrary iteration of the edge loop from an arbitrary state (any number of vertices); one query point, coordinates in [-100,100] (point [-200,200]); vertex coordinates pairwise equal '
            'or > 1e-6 apart; point level with a vertex or > 1e-6 from its level, > 1e-6 (relative to the edge) from every edge line it is level with'],
    outside=['whole-kernel runs beyond 3 (thorough 4) vertices: covered only through the edge-step lemma + induction', 'rounding (exact reals)', 'cells_inside_polygon = cell2coord (C07) composed with this',
             'that the crossing number under a consistent half-open rule decides the even-odd interior is the textbook theorem this check trusts'],
    assumptions=['atol = 1e-8 (default of gutils.points_inside_polygon)', 'extent = min/max of the vertices (c_hydrodiy_gis.pyx)', 'answer vector zero-initialised'],
    stubs=['fprintf: no effect'],
)
