"""C06 — catchment delineation is exactly upstream reachability on the flow grid (engine A, integers)."""
import itertools
import math
from engine.llir.harness import Family, Scalar, Buf, KnownPred
from engine.ops import *
from harness.gridref import *

SHAPES_Q = [(1, 1), (1, 2), (2, 1), (1, 3), (3, 1), (2, 2), (1, 4), (4, 1)]
SHAPES_T = SHAPES_Q + [(2, 3), (3, 2), (1, 5), (1, 6)]
SHAPES_UPDOWN_Q = SHAPES_Q + [(2, 3), (3, 2), (3, 3)]


def sym_codes(S, n, fixed=None):
    """symbolic flow codes; `fixed` = {cell: code} pins some cells (used to split a big instance into parallel tasks)"""
    fixed = {int(k): v for k, v in (fixed or {}).items()}
    codes = [fixed[i] if i in fixed else S.int('fd%d' % i) for i in range(n)]
    for f in codes:
        if not isinstance(f, int):
            S.assume(code_domain(f))
    return codes


def split(insts, ncells_min=4):
    """split instances with at least ncells_min cells into one task per code of cell 0"""
    out = []
    for i in insts:
        if i['nrows'] * i['ncols'] >= ncells_min:
            out += [dict(i, fixed={'0': c}) for c in CODES]
        else:
            out.append(i)
    return out


class Downstream(Family):
    prop = 'C06'
    name = 'downstream'
    pkg = 'gis'
    kernel = 'c_downstream'
    srcfile = 'gis/c_grid.c'

    def instances(self, tier):
        shapes = SHAPES_UPDOWN_Q + ([(3, 4), (4, 3)] if tier == 'thorough' else [])
        return [dict(nrows=r, ncols=c, cell=u) for r, c in shapes for u in range(-1, r * c + 1)]

    def inputs(self, inst, S):
        return dict(codes=sym_codes(S, inst['nrows'] * inst['ncols']))

    def args(self, inst, I):
        return [Scalar('i64', inst['nrows']), Scalar('i64', inst['ncols']), Buf('flowdircode', 'i64', FLOWDIRCODE),
                Buf('flowdir', 'i64', I['codes']), Scalar('i64', 1), Buf('idxup', 'i64', [inst['cell']]),
                Buf('idxdown', 'i64', [0], out=True)]

    def spec(self, inst, I, O):
        r, c, u = inst['nrows'], inst['ncols'], inst['cell']
        if not (0 <= u < r * c):
            return [('invalid-cell->error', O['ret'] > 0)]
        return [('downstream=reference', O['idxdown'][0] == refdown(u, I['codes'], r, c)), ('ret0', O['ret'] == 0),
                ('flowdir-unchanged', forall(a == b for a, b in zip(O['flowdir'], I['codes'])))]


class Upstream(Family):
    prop = 'C06'
    name = 'upstream'
    pkg = 'gis'
    kernel = 'c_upstream'
    srcfile = 'gis/c_grid.c'

    def instances(self, tier):
        shapes = SHAPES_UPDOWN_Q if tier == 'quick' else SHAPES_UPDOWN_Q + [(2, 4), (4, 2)]
        return [dict(nrows=r, ncols=c, cell=u) for r, c in shapes for u in range(-1, r * c + 1)]

    def cost(self, inst):
        return 3 ** min(8, inst['nrows'] * inst['ncols'])

    def inputs(self, inst, S):
        return dict(codes=sym_codes(S, inst['nrows'] * inst['ncols']))

    def args(self, inst, I):
        return [Scalar('i64', inst['nrows']), Scalar('i64', inst['ncols']), Buf('flowdircode', 'i64', FLOWDIRCODE),
                Buf('flowdir', 'i64', I['codes']), Scalar('i64', 1), Buf('idxdown', 'i64', [inst['cell']]),
                Buf('idxup', 'i64', [0] * 9, out=True)]

    def spec(self, inst, I, O):
        r, c, d = inst['nrows'], inst['ncols'], inst['cell']
        n = r * c
        if not (0 <= d < n):
            return [('invalid-cell->error', O['ret'] > 0)]
        up = O['idxup']
        res = [('ret0', O['ret'] == 0)]
        for u in range(n):
            listed = count(x == u for x in up)
            res.append(('inverse[%d]' % u, listed == iite(refdown(u, I['codes'], r, c) == d, 1, 0)))
        res.append(('entries-valid', forall(b_and(x >= -1, x < n) for x in up)))
        res.append(('packed', forall(b_implies(up[k] == -1, up[k + 1] == -1) for k in range(8))))
        return res


class DelineateArea(Family):
    prop = 'C06'
    name = 'delineate_area'
    pkg = 'gis'
    kernel = 'c_delineate_area'
    srcfile = 'gis/c_catchment.c'
    time_budget = {'quick': 200, 'thorough': 1500}

    def instances(self, tier):
        out = []
        shapes = SHAPES_Q if tier == 'quick' else SHAPES_T
        for r, c in shapes:
            n = r * c
            for outlet in range(n):
                others = [u for u in range(n) if u != outlet]
                maxin = 1 if (tier == 'quick' or n > 4) else 2
                if tier == 'quick' and n > 3:
                    inl_sets = [()] + [(others[0],), (others[-1],)]
                else:
                    inl_sets = [s for k in range(maxin + 1) for s in itertools.combinations(others, k)]
                if n >= 6:
                    inl_sets = [(), (others[0],)]
                for inl in inl_sets:
                    out.append(dict(nrows=r, ncols=c, outlet=outlet, inlets=list(inl), nval=n + 2))
        # buffer exhaustion and invalid outlet
        out.append(dict(nrows=1, ncols=3, outlet=0, inlets=[], nval=2))
        out.append(dict(nrows=1, ncols=3, outlet=0, inlets=[], nval=1))
        out.append(dict(nrows=1, ncols=3, outlet=3, inlets=[], nval=5))
        out.append(dict(nrows=1, ncols=3, outlet=-1, inlets=[], nval=5))
        out.append(dict(nrows=2, ncols=2, outlet=0, inlets=[4], nval=6))
        return split(out, 5)

    def cost(self, inst):
        return 6 ** (inst['nrows'] * inst['ncols'] - len(inst.get('fixed') or {}))

    def inputs(self, inst, S):
        return dict(codes=sym_codes(S, inst['nrows'] * inst['ncols'], inst.get('fixed')))

    def args(self, inst, I):
        nv = inst['nval']
        return [Scalar('i64', inst['nrows']), Scalar('i64', inst['ncols']), Buf('flowdircode', 'i64', FLOWDIRCODE),
                Buf('flowdir', 'i64', I['codes']), Scalar('i64', inst['outlet']), Scalar('i64', len(inst['inlets'])),
                Buf('idxinlets', 'i64', inst['inlets']), Scalar('i64', nv), Buf('idxcells_area', 'i64', [-1] * nv, out=True),
                Buf('buffer1', 'i64', [-1] * nv, out=True), Buf('buffer2', 'i64', [-1] * nv, out=True)]

    def spec(self, inst, I, O):
        r, c, outlet, inlets, nv = inst['nrows'], inst['ncols'], inst['outlet'], inst['inlets'], inst['nval']
        n = r * c
        ret = O['ret']
        if not (0 <= outlet < n) or any(not (0 <= i < n) for i in inlets) or nv < 1:
            return [('invalid-arguments->error', ret > 0)]
        layers, down = reach_layers(I['codes'], r, c, outlet, inlets)
        cyc = exists(layers[k][outlet] for k in range(1, n + 1))
        area = [exists(layers[k][u] for k in range(n + 1)) for u in range(n)]
        nonempty = exists(layers[1][u] for u in range(n))
        size = count(area)
        cells = O['idxcells_area']
        res = [('flowdir-unchanged', forall(a == b for a, b in zip(O['flowdir'], I['codes'])))]
        fits = b_and(b_not(cyc), size + 1 < nv)   # the kernel keeps one spare slot
        res.append(('acyclic-and-fits->success', b_implies(fits, ret == 0)))
        ok = b_and(ret == 0, b_not(cyc))
        for u in range(n):
            res.append(('listed-once-iff-reaches-outlet[%d]' % u,
                        b_implies(ok, count(x == u for x in cells) == iite(b_and(nonempty, area[u]), 1, 0))))
        res.append(('other-entries=-1', b_implies(ok, forall(b_and(x >= -1, x < n) for x in cells))))
        res.append(('cycle->error', b_implies(cyc, ret > 0)))
        return res


class DelineateRiver(Family):
    prop = 'C06'
    name = 'delineate_river'
    pkg = 'gis'
    kernel = 'c_delineate_river'
    srcfile = 'gis/c_catchment.c'
    tol = 1e-9

    def instances(self, tier):
        shapes = [(1, 2), (2, 1), (1, 3), (2, 2), (3, 1)] if tier == 'quick' else SHAPES_Q + [(2, 3), (3, 2)]
        out = [dict(nrows=r, ncols=c, start=u, nval=r * c + 1) for r, c in shapes for u in range(-1, r * c + 1)] + \
              [dict(nrows=2, ncols=2, start=0, nval=2)]
        # the same walks on a geo-referenced grid (cell size 0.25, corner (-1, 2)): distances stay in cell units, coordinates are cell centres
        out += [dict(nrows=r, ncols=c, start=u, nval=r * c + 1, geo=[-1.0, 2.0, 0.25]) for r, c in [(1, 3), (2, 2), (3, 1)] for u in range(r * c)]
        return out

    def cost(self, inst):
        return 3 ** (inst['nrows'] * inst['ncols'])

    def inputs(self, inst, S):
        return dict(codes=sym_codes(S, inst['nrows'] * inst['ncols'], inst.get('fixed')))

    def args(self, inst, I):
        nv = inst['nval']
        xll, yll, csz = inst.get('geo') or [0.0, 0.0, 1.0]
        return [Scalar('i64', inst['nrows']), Scalar('i64', inst['ncols']), Scalar('double', xll), Scalar('double', yll),
                Scalar('double', csz), Buf('flowdircode', 'i64', FLOWDIRCODE), Buf('flowdir', 'i64', I['codes']),
                Scalar('i64', inst['start']), Scalar('i64', nv), Buf('npoints', 'i64', [0], out=True),
                Buf('idxcells', 'i64', [-1] * nv, out=True), Buf('data', 'double', [0.0] * (5 * nv), out=True)]

    def spec(self, inst, I, O):
        r, c, start, nv = inst['nrows'], inst['ncols'], inst['start'], inst['nval']
        n = r * c
        if not (0 <= start < n):
            return [('invalid-start->error', O['ret'] > 0)]
        cells, data, npts = O['idxcells'], O['data'], O['npoints'][0]
        codes = I['codes']
        SQ2 = math.sqrt(2.0)
        res = [('ret0', O['ret'] == 0), ('first=start', cells[0] == start)]
        # reference walk: cur_k = cell at step k (or negative once the chain has left the grid)
        cur = start
        alive = True
        dist = 0.0
        for k in range(nv):
            res.append(('npoints>=%d' % (k + 1), b_implies(alive, npts >= k + 1)))
            res.append(('cell[%d]' % k, b_implies(alive, cells[k] == cur)))
            res.append(('distance[%d]' % k, b_implies(alive, fsame(data[5 * k], dist, self.tol, stol=1e-12))))
            xll, yll, csz = inst.get('geo') or [0.0, 0.0, 1.0]
            for u in range(n):
                isu = b_and(alive, cur == u) if not isinstance(cur, int) else (alive if cur == u else False)
                if isu is False:
                    continue
                col, row = u % c, u // c
                res.append(('cell-centre-coordinates[%d]' % k, b_implies(isu, b_and(fsame(data[5 * k + 3], xll + csz * (col + 0.5), self.tol, stol=1e-12),
                                                                                     fsame(data[5 * k + 4], yll + csz * (r - 1 - row + 0.5), self.tol, stol=1e-12)))))
            # next cell
            nxt = -1
            diag = False
            for u in range(n):
                isu = b_and(alive, cur == u) if not isinstance(cur, int) else (alive if cur == u else False)
                nxt = iite(isu, refdown(u, codes, r, c), nxt)
                diag = b_or(diag, b_and(isu, step_is_diagonal(u, codes)))
            stepalive = b_and(alive, nxt >= 0)
            res.append(('stops-when-chain-ends[%d]' % k, b_implies(b_and(alive, nxt < 0), npts == k + 1)))
            dist = fadd(dist, fite(zbool(stepalive), fite(zbool(diag), SQ2, 1.0), 0.0))
            cur, alive = nxt, stepalive
        return res


class FlowPathLengths(Family):
    prop = 'C06'
    name = 'flowpathlengths'
    pkg = 'gis'
    kernel = 'c_delineate_flowpathlengths_in_catchment'
    srcfile = 'gis/c_catchment.c'

    def instances(self, tier):
        shapes = [(1, 2), (2, 1), (1, 3), (2, 2), (3, 1)] if tier == 'quick' else SHAPES_Q
        out = []
        for r, c in shapes:
            n = r * c
            for outlet in range(n):
                out.append(dict(nrows=r, ncols=c, outlet=outlet))
        out = split(out)
        if tier == 'thorough':
            # 10 code classes per symbolic cell: a 6-cell grid with one pinned cell is 1e5 paths (about 1.5 h of CPU), so the larger shapes
            # are sampled: 1x5 from the middle outlet (cell 0 pinned per task), 2x3 from one interior outlet with the top row pinned to 30 fixed code triples
            out += [dict(nrows=1, ncols=5, outlet=2, fixed={'0': c0}) for c0 in CODES]
            import random
            rng = random.Random(20260)
            triples = rng.sample([(a, b, c) for a in CODES for b in CODES for c in CODES], 30)
            out += [dict(nrows=2, ncols=3, outlet=4, fixed={'0': a, '1': b, '2': c}) for a, b, c in triples]
        return out

    def cost(self, inst):
        return 6 ** (inst['nrows'] * inst['ncols'] - len(inst.get('fixed') or {}))

    def inputs(self, inst, S):
        return dict(codes=sym_codes(S, inst['nrows'] * inst['ncols'], inst.get('fixed')))

    def args(self, inst, I):
        # the area handed over is the whole grid (every cell, listed once): a superset of any delineated area
        n = inst['nrows'] * inst['ncols']
        return [Scalar('i64', inst['nrows']), Scalar('i64', inst['ncols']), Buf('flowdircode', 'i64', FLOWDIRCODE),
                Buf('flowdir', 'i64', I['codes']), Scalar('i64', n), Buf('idxcells_area', 'i64', list(range(n))),
                Scalar('i64', inst['outlet']), Buf('flowpathlengths', 'double', [0.0] * (3 * n), out=True)]

    def spec(self, inst, I, O):
        r, c, outlet = inst['nrows'], inst['ncols'], inst['outlet']
        n = r * c
        codes = I['codes']
        SQ2 = math.sqrt(2.0)
        fl = O['flowpathlengths']
        res = [('ret0', O['ret'] == 0)]
        for s in range(n):
            # reference: walk from s until the outlet is reached; length = sum of step lengths; 0 if the chain leaves the grid
            cur, alive, reached, length = s, True, False, 0.0
            for k in range(n):
                nxt, diag = -1, False
                for u in range(n):
                    isu = (alive if cur == u else False) if isinstance(cur, int) else b_and(alive, cur == u)
                    nxt = iite(isu, refdown(u, codes, r, c), nxt)
                    diag = b_or(diag, b_and(isu, step_is_diagonal(u, codes)))
                moving = b_and(alive, b_not(reached), nxt >= 0)
                length = fadd(length, fite(zbool(moving), fite(zbool(diag), SQ2, 1.0), 0.0))
                reached = b_or(reached, b_and(moving, nxt == outlet))
                alive = b_and(alive, b_or(reached, nxt >= 0))
                cur = iite(moving, nxt, cur)
            res.append(('cell-id[%d]' % s, fsame(fl[3 * s], float(s))))
            if s != outlet:   # the walk from the outlet itself only comes back to it on a cyclic grid
                res.append(('length-to-outlet[%d]' % s, b_implies(reached, fsame(fl[3 * s + 2], length, self.tol, stol=1e-12))))
        return res


def wrapper_delineate_area(tier):
    """Catchment.delineate_area: buffers of the requested size filled with -1, the flow grid and the inlets of THIS call are passed (no
    state carried over from an earlier call on the same object), the result keeps exactly the non-negative entries"""
    import numpy as np
    from hydrodiy.gis import grid as G
    from engine.contracts import Recorder, patched_module
    out = []
    G_real = G.c_hydrodiy_gis

    def behaviour(c):
        # pretend the kernel found cells 0 and 1
        c.raw_args[4][:2] = [0, 1]
        return 0
    for (nr, nc) in [(2, 2), (3, 4)]:
        fd = G.Grid('fd', nc, nr, dtype=np.int64)
        fd.data = np.full((nr, nc), 4, dtype=np.int64)
        ca = G.Catchment('c', fd)
        rec = Recorder({'delineate_area': behaviour})
        with patched_module(G, 'c_hydrodiy_gis', rec):
            ca.delineate_area(1, idxinlets=[2], nval=7)
            c1 = rec.calls[[c.name for c in rec.calls].index('delineate_area')]
            n1 = len(rec.calls)
            ca.delineate_area(0, nval=5)
            c2 = [c for c in rec.calls[n1:] if c.name == 'delineate_area'][0]
        tag = dict(nrows=nr, ncols=nc)
        out.append(('outlet-passed', int(c1.args[2]) == 1 and int(c2.args[2]) == 0, tag))
        out.append(('inlets-of-this-call', list(c1.args[3]) == [2], dict(tag, got=list(map(int, c1.args[3])))))
        out.append(('no-inlets-carried-over-from-earlier-call', len(c2.args[3]) == 0, dict(tag, got=list(map(int, c2.args[3])))))
        out.append(('buffers-of-requested-size-filled-with--1', all(len(c1.args[k]) == 7 and np.all(c1.args[k] == -1) for k in (4, 5, 6)) and
                    all(len(c2.args[k]) == 5 for k in (4, 5, 6)), tag))
        out.append(('flowdir-passed', np.array_equal(c1.args[1], fd.data), tag))
        out.append(('area=non-negative-entries', list(ca.idxcells_area) == [0, 1], dict(tag, got=list(map(int, ca.idxcells_area)))))
    # hole filling on square and non-square grids: the filled area contains the area, adds exactly the enclosed cells, all valid cells
    for (nr, nc) in [(3, 3), (3, 5), (5, 3), (4, 6)]:
        fd = G.Grid('fd', nc, nr, dtype=np.int64)
        fd.data = np.full((nr, nc), 4, dtype=np.int64)
        # a ring around cell (1, 1) plus, on wider grids, a tail to the right
        ring = [r * nc + c for r in range(3) for c in range(3) if (r, c) != (1, 1)]
        tail = [1 * nc + c for c in range(3, nc)]
        cells = ring + tail

        def beh(c, cells=cells):
            c.raw_args[4][:len(cells)] = cells
            return 0
        ca = G.Catchment('c', fd)
        rec = Recorder({'delineate_area': beh, 'cell2rowcol': lambda c: G_real.cell2rowcol(*c.raw_args)})
        with patched_module(G, 'c_hydrodiy_gis', rec):
            ca.delineate_area(0, nval=nr * nc + 2)
        got = sorted(map(int, ca.idxcells_area_filled))
        want = sorted(cells + [1 * nc + 1])
        out.append(('filled-area=area+enclosed-cells', got == want, dict(nrows=nr, ncols=nc, got=got, want=want)))
        out.append(('filled-area-contains-area', set(map(int, ca.idxcells_area)) <= set(got), dict(nrows=nr, ncols=nc)))
    return out


CONTRACTS = [wrapper_delineate_area]


def contracts_part(tier, seed, workdir):
    from engine.contracts import run_contracts
    return run_contracts('C06', 'harness.C06', CONTRACTS, tier)


FAMILIES = [Downstream(), Upstream(), DelineateArea(), DelineateRiver(), FlowPathLengths()]
PARTS = [contracts_part]

META = dict(
    explanation='bounded symbolic execution of the LLVM IR of c_downstream / c_upstream / c_delineate_area / c_delineate_river / '
                'c_delineate_flowpathlengths_in_catchment (with c_neighbours, getnxy inlined by the interpreter) on small grids whose '
                'flow-direction codes are all symbolic over {8 ESRI codes, 0, one invalid value}; each feasible path is compared by z3 with an '
                'independent bounded-reachability model of the same symbolic codes',
    bounds=['upstream/downstream: every cell (and the two invalid neighbours -1, n) of grids 1x1..3x3 (thorough + 2x4, 3x4)',
            'delineate_area: grids with <= 4 cells (thorough <= 6), every outlet, inlet sets of size <= 1 (thorough <= 2 up to 4 cells), '
            'buffer size n+2 plus buffer-exhaustion and invalid-argument instances',
            'river: grids <= 4 cells (thorough <= 6), every start; flow-path lengths: grids <= 4 cells, every outlet (thorough + 1x5 from outlet 2, 2x3 from outlet 4 with the top row pinned to 30 of the 1000 code triples)'],
    outside=['hole filling (scipy binary_fill_holes)', 'grids beyond the bound', 'c_delineate_boundary (not part of the property)'],
    assumptions=['flow codes restricted to the ten listed values (one representative invalid code)',
                 'unwinding: a path executing more than 400000 IR instructions is reported as bound-exceeded, never as success'],
    stubs=['fprintf: no effect'],
)
