"""C09 — CSV files with comment headers round-trip (engine C: CrossHair on the header logic; storage modes enumerated on the real files)."""
import os
import shutil
import tempfile


def storage_modes(tier):
    """write_csv then read_csv through every storage mode (plain, compressed under .csv / .zip / extension-less names, member of a
    caller-supplied archive in a sub-folder): same column names, number of rows, values to the precision of the float format, and
    the caller's comments (incl. a value containing colons) plus the recorded counts in the comment dictionary.  The configuration
    space is finite and has no arithmetic core: it is enumerated on real temporary files (stated as enumeration, not solver-based)."""
    import zipfile
    import numpy as np
    import pandas as pd
    from hydrodiy.io import csv
    out = []
    d = tempfile.mkdtemp(prefix='vf_c09_')
    try:
        src = os.path.join(d, 'script.py')
        open(src, 'w').close()
        TXT = ['gauge #12, "left" bank', '#410001', 'k: v']     # commas, quotes, colons, hashes (also leading)
        df = pd.DataFrame({'flow_1': [0.5, 1.25, -3.0], 'n-2': [1, 2, 3], 'name x': TXT})
        comment = {'station': 'ab:12 : x', 'note': 'see #12 and #13: fixed'}
        def check(tag, data, com):
            out.append(('columns[%s]' % tag, list(data.columns) == list(df.columns), dict(mode=tag, got=list(map(str, data.columns)))))
            out.append(('rows[%s]' % tag, len(data) == len(df), dict(mode=tag)))
            out.append(('values[%s]' % tag, bool(np.allclose(data['flow_1'].values, df['flow_1'].values, atol=1e-5)) and
                        list(data['n-2']) == [1, 2, 3] and list(data['name x']) == TXT, dict(mode=tag, got=list(map(str, data['name x'])))))
            out.append(('comments[%s]' % tag, com.get('station') == 'ab:12 : x' and com.get('note') == 'see #12 and #13: fixed' and com.get('nrow') == '3' and
                        com.get('ncol') == '3', dict(mode=tag, got={k: com.get(k) for k in ('station', 'note', 'nrow', 'ncol')})))
        for tag, name, compress in (('plain', 'p.csv', False), ('zip:name.csv', 'a.csv', True), ('zip:name.zip', 'c.zip', True),
                                    ('zip:extensionless', 'b', True), ('zip:dotted.name.csv', 'v1.2.csv', True)):
            f = os.path.join(d, name)
            try:
                csv.write_csv(df, f, comment, src, compress=compress, write_sys_info=False, author='me')
                data, com = csv.read_csv(f)
                check(tag, data, com)
            except Exception as e:
                out.append(('roundtrip[%s]' % tag, False, dict(mode=tag, error=repr(e))))
        try:
            zf = os.path.join(d, 'arch.zip')
            with zipfile.ZipFile(zf, 'w') as ar:
                csv.write_csv(df, 'sub/e.csv', comment, src, archive=ar, write_sys_info=False, author='me')
            with zipfile.ZipFile(zf, 'r') as ar:
                data, com = csv.read_csv('sub/e.csv', archive=ar)
            check('archive-member', data, com)
        except Exception as e:
            out.append(('roundtrip[archive-member]', False, dict(mode='archive-member', error=repr(e))))
        # a frame of more than 999 rows: the recorded count comes back as the plain number
        try:
            big = pd.DataFrame({'v': np.arange(1200) * 0.5})
            f = os.path.join(d, 'big.csv')
            csv.write_csv(big, f, {'k': 'v'}, src, write_sys_info=False, author='me')
            data, com = csv.read_csv(f)
            out.append(('recorded-row-count-of-a-long-frame', len(data) == 1200 and com.get('nrow') == '1200' and com.get('ncol') == '1', dict(mode='plain-1200-rows', got=[com.get('nrow'), com.get('ncol')])))
        except Exception as e:
            out.append(('roundtrip[plain-1200-rows]', False, dict(mode='plain-1200-rows', error=repr(e))))
        # the file just written is the one read back, also when an older file of the same stem (other storage mode) sits in the folder
        try:
            sub = os.path.join(d, 'seq')
            os.makedirs(sub)
            old = df.copy()
            old['flow_1'] = [9.0, 9.0, 9.0]
            csv.write_csv(old, os.path.join(sub, 'export.csv'), {'station': 'old'}, src, compress=False, write_sys_info=False, author='me')
            csv.write_csv(df, os.path.join(sub, 'export'), comment, src, compress=True, write_sys_info=False, author='me')
            data, com = csv.read_csv(os.path.join(sub, 'export'))
            out.append(('latest-write-is-read-back', com.get('station') == 'ab:12 : x' and bool(np.allclose(data['flow_1'].values, df['flow_1'].values, atol=1e-5)),
                        dict(mode='plain-then-compressed-same-stem', got=com.get('station'))))
        except Exception as e:
            out.append(('roundtrip[plain-then-compressed-same-stem]', False, dict(mode='plain-then-compressed-same-stem', error=repr(e))))
        # two members with the same base name in different sub-folders: each is read back as itself
        try:
            zf = os.path.join(d, 'arch2.zip')
            dfa, dfb = df.copy(), df.iloc[:2].copy()
            dfb['flow_1'] = [7.0, 8.0]
            with zipfile.ZipFile(zf, 'w') as ar:
                csv.write_csv(dfa, 'site_A/flow.csv', {'station': 'A'}, src, archive=ar, write_sys_info=False, author='me')
                csv.write_csv(dfb, 'site_B/flow.csv', {'station': 'B'}, src, archive=ar, write_sys_info=False, author='me')
            with zipfile.ZipFile(zf, 'r') as ar:
                da, ca = csv.read_csv('site_A/flow.csv', archive=ar)
                db, cb = csv.read_csv('site_B/flow.csv', archive=ar)
            out.append(('same-base-name-members-kept-apart', ca.get('station') == 'A' and cb.get('station') == 'B' and len(da) == 3 and len(db) == 2 and
                        list(db['flow_1']) == [7.0, 8.0] and cb.get('nrow') == '2', dict(mode='archive-two-members', got=[ca.get('station'), cb.get('station'), len(da), len(db)])))
        except Exception as e:
            out.append(('roundtrip[archive-two-members]', False, dict(mode='archive-two-members', error=repr(e))))
    finally:
        shutil.rmtree(d, ignore_errors=True)
    return out


CONTRACTS = [storage_modes]


def part_header(tier, seed, workdir):
    from engine.ch import runner
    import harness.ch_C09 as m
    return runner.run_contracts('C09', 'harness.ch_C09', m.CONTRACTS, tier, timeouts={'quick': 45, 'thorough': 300})


def part_storage(tier, seed, workdir):
    from engine.contracts import run_contracts
    return run_contracts('C09', 'harness.C09', CONTRACTS, tier)


FAMILIES = []
PARTS = [part_header, part_storage]
META = dict(
    explanation='CrossHair contracts on the real _header2comment / _csvhead: a single-line value of up to 4 arbitrary unicode characters comes back '
                'unchanged under its key (2- and 25-character keys), the header lines written by _csvhead read back through the reader\'s prefix '
                'stripping into the caller\'s comments and the recorded counts. Storage modes (finite configuration space) are enumerated on real files.',
    bounds=['values of 1-4 characters (3 through _csvhead), no newline, no outer blanks; keys of length 2 and 25; counts 0..9999 / 0..99'],
    outside=['everything pandas does with the body (column names, float precision, quoting): exercised only by the enumerated storage-mode scenario',
             'values longer than 4 characters (a value containing ten dashes is dropped by the parser: beyond the bound)', 'gzip files'],
    assumptions=['datetime.now / getuser are not part of the checked comments'],
    stubs=[],
)
