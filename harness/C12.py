"""C12 — bounded parameter vectors keep their invariants under any history (engine B: one operation from an arbitrary valid state)."""
import copy
import math
import numpy as np
import z3
from engine.pysym import core
from engine.pysym.core import SR, assume, term
from engine.pysym.runner import Case, close, is_nan, run_cases
from engine.llir.xr import rv as q

OPS = ['set_attr', 'set_key', 'set_all', 'reset', 'clone', 'dict_roundtrip', 'fail_nan', 'fail_length', 'fail_key']


def modules():
    from hydrodiy.data import containers
    return [containers]


def sv(name, lo=-1000, hi=1000):
    v = SR(z3.Real(name))
    assume(z3.And(v.e >= lo, v.e <= hi))
    return v


def observe(v):
    """every observable of a Vector, as plain python lists (copies)"""
    return dict(values=list(v.values), mins=list(v.mins), maxs=list(v.maxs), defaults=list(v.defaults), names=[str(n) for n in v.names],
                hitbounds=v.hitbounds, check_bounds=v.check_bounds, check_hitbounds=v.check_hitbounds, accept_nan=v.accept_nan, nval=v.nval)


def same(a, b, tol=1e-12):
    if is_nan(a) or is_nan(b):
        return is_nan(a) and is_nan(b)
    if isinstance(a, (bool, np.bool_)) or isinstance(b, (bool, np.bool_)) or isinstance(a, str):
        return a == b
    if isinstance(a, float) and math.isinf(a) or isinstance(b, float) and math.isinf(b):
        return (not isinstance(a, SR)) and (not isinstance(b, SR)) and a == b
    return close(a, b, tol)


def same_list(a, b):
    if len(a) != len(b):
        return False
    r = True
    for x, y in zip(a, b):
        c = same(x, y)
        r = (r & c) if not isinstance(r, bool) or not isinstance(c, bool) else (r and c)
        if r is False:
            return False
    return r


def conj(*cs):
    r = True
    for c in cs:
        if isinstance(c, (bool, np.bool_)):
            if not c:
                return False
            continue
        r = c if r is True else (r & c)
    return r


def clipped(a, lo, hi):
    """reference clip and hit flag for one value (symbolic or concrete); infinite bounds are python floats"""
    below = (a < lo) if not (isinstance(lo, float) and math.isinf(lo)) else False
    above = (a > hi) if not (isinstance(hi, float) and math.isinf(hi)) else False
    return below, above


class VectorOp(Case):
    prop = 'C12'

    def __init__(self, op, nnames, finite, check_hit, accept_nan, hit0, nan_state=False):
        self.op, self.nn, self.finite, self.ch, self.an, self.hit0, self.nan_state = op, nnames, finite, bool(check_hit), bool(accept_nan), bool(hit0), nan_state
        self.name = 'vector:%s:n%d:%s:hit=%d:nan=%d:h0=%d%s' % (op, nnames, 'finite' if finite else 'infinite', check_hit, accept_nan, hit0,
                                                           ':nanstate' if nan_state else '')
        self.params = dict(op=op, nnames=nnames, finite=finite, check_hitbounds=check_hit, accept_nan=accept_nan, hit0=hit0, nan_state=nan_state)
        self.functions = ['hydrodiy.data.containers.Vector']

    def modules(self):
        return modules()

    def inputs(self):
        n = self.nn
        I = dict(mins=[], maxs=[], defaults=[], state=[], arg=[sv('a%d' % i) for i in range(max(n, 1))])
        for i in range(n):
            if self.finite:
                lo, hi = sv('min%d' % i), sv('max%d' % i)
                assume(lo.e + 1 <= hi.e)
            else:
                lo, hi = -math.inf, math.inf
            d, s = sv('def%d' % i), sv('val%d' % i)
            if self.finite:
                assume(z3.And(d.e >= lo.e, d.e <= hi.e, s.e >= lo.e, s.e <= hi.e))
                # assigned values are at least 1e-6 away from a bound or exactly on it (property precondition)
                for a in I['arg'][:n]:
                    for b in (lo, hi):
                        dd = a.e - b.e
                        assume(z3.Or(dd == 0, dd >= q(1e-6), dd <= -q(1e-6)))
            I['mins'].append(lo); I['maxs'].append(hi); I['defaults'].append(d); I['state'].append(s)
        return I

    def build(self, I):
        from hydrodiy.data.containers import Vector
        names = ['p%d' % i for i in range(self.nn)]
        v = Vector(names, list(I['defaults']), list(I['mins']), list(I['maxs']), check_hitbounds=self.ch, accept_nan=self.an)
        state = list(I['state'])
        if self.nan_state and self.an and self.nn:
            state[0] = np.nan
        if self.nn:
            v.values = state
        # arbitrary valid flag: a vector that does not track hits never shows one
        v._hitbounds = bool(self.hit0 and self.ch)
        return v

    def run(self, I):
        from hydrodiy.data.containers import Vector
        v = self.build(I)
        before = observe(v)
        out = dict(before=before, raised=None, other=None)
        a = I['arg']
        op = self.op
        try:
            if op == 'set_attr':
                setattr(v, 'p0', a[0])
            elif op == 'set_key':
                v['p0'] = a[0]
            elif op == 'set_all':
                arr = core.symarray(a[:self.nn]) if any(isinstance(x, SR) for x in a) else np.array(a[:self.nn], dtype=float)
                v.values = arr
                out['arg_after'] = list(arr)
            elif op == 'reset':
                v.reset()
            elif op == 'clone':
                c = v.clone()
                out['other'] = observe(c)
                # independence: editing the clone must not show in the original
                if self.nn:
                    c.values = [x for x in I['defaults']]
                    c.p0 = I['defaults'][0]
            elif op == 'dict_roundtrip':
                c = Vector.from_dict(v.to_dict())
                out['other'] = observe(c)
            elif op == 'fail_nan':
                v.p0 = np.nan
            elif op == 'fail_length':
                v.values = list(a[:self.nn]) + [0.0]
            elif op == 'fail_key':
                v['nosuchname'] = a[0]
        except ValueError as e:
            out['raised'] = 'ValueError'
        out['after'] = observe(v)
        # aliasing probe: one more in-place assignment must not show in the immutable arrays (nor in the copy made above)
        if self.nn and out['raised'] is None:
            v.p0 = a[0]
            out['probe'] = observe(v)
        return out

    def spec(self, I, O, err):
        res = [('no-unexpected-exception', err is None)]
        if err is not None:
            return res
        b, a, op, n = O['before'], O['after'], self.op, self.nn
        arg = I['arg']
        # immutable part
        res.append(('names-bounds-defaults-unchanged', conj(same_list(a['mins'], b['mins']), same_list(a['maxs'], b['maxs']),
                                                            same_list(a['defaults'], b['defaults']), a['names'] == b['names'],
                                                            a['check_hitbounds'] == b['check_hitbounds'], a['accept_nan'] == b['accept_nan'])))
        if 'probe' in O:
            p = O['probe']
            res.append(('bounds-defaults-not-aliased-with-values', conj(same_list(p['mins'], b['mins']), same_list(p['maxs'], b['maxs']),
                                                                       same_list(p['defaults'], b['defaults']))))
        # values within bounds, nan only if allowed
        inb = True
        for i in range(n):
            x = a['values'][i]
            if is_nan(x):
                inb = conj(inb, self.an)
            else:
                lo, hi = a['mins'][i], a['maxs'][i]
                inb = conj(inb, x >= lo if not (isinstance(lo, float) and math.isinf(lo)) else True,
                           x <= hi if not (isinstance(hi, float) and math.isinf(hi)) else True)
        res.append(('values-within-bounds', inb))
        res.append(('no-hit-flag-without-tracking', a['hitbounds'] == False if not self.ch else True))
        unchanged = conj(same_list(a['values'], b['values']), a['hitbounds'] == b['hitbounds'])
        if op in ('fail_nan', 'fail_length', 'fail_key'):
            expect_raise = not (op == 'fail_nan' and self.an)
            res.append(('rejected-with-ValueError', (O['raised'] == 'ValueError') == expect_raise))
            if expect_raise:
                res.append(('rejected-assignment-leaves-state-untouched', unchanged))
            elif n:
                # NaN is allowed: the assignment stores it (and nothing else changes)
                res.append(('nan-stored-when-allowed', conj(is_nan(a['values'][0]), same_list(a['values'][1:], b['values'][1:]))))
        elif op in ('set_attr', 'set_key') and n:
            lo, hi = b['mins'][0], b['maxs'][0]
            below, above = clipped(arg[0], lo, hi)
            hit = (below | above) if not (isinstance(below, bool) and isinstance(above, bool)) else (below or above)
            # expected stored value
            for label, cond, val in (('below', below, lo), ('above', above, hi)):
                if cond is not False:
                    res.append(('clipped-to-bound-%s' % label, conj(~cond if not isinstance(cond, bool) else (not cond)) if False else (
                        (same(a['values'][0], val) | ~cond) if not isinstance(cond, bool) else (same(a['values'][0], val) if cond else True))))
            inside = ~hit if not isinstance(hit, bool) else (not hit)
            res.append(('stored-unchanged-when-inside', (same(a['values'][0], arg[0]) | hit) if not isinstance(hit, bool) else (
                same(a['values'][0], arg[0]) if not hit else True)))
            if self.ch:
                res.append(('hitbounds-iff-clipped', (a['hitbounds'] == hit) if isinstance(a['hitbounds'], (bool, np.bool_)) and isinstance(hit, bool)
                            else _iff(a['hitbounds'], hit)))
            res.append(('other-values-untouched', same_list(a['values'][1:], b['values'][1:])))
        elif op == 'set_all' and n:
            anyhit = False
            for i in range(n):
                lo, hi = b['mins'][i], b['maxs'][i]
                below, above = clipped(arg[i], lo, hi)
                hit = (below | above) if not (isinstance(below, bool) and isinstance(above, bool)) else (below or above)
                anyhit = (anyhit | hit) if not (isinstance(anyhit, bool) and isinstance(hit, bool)) else (anyhit or hit)
                res.append(('stored-unchanged-when-inside[%d]' % i, (same(a['values'][i], arg[i]) | hit) if not isinstance(hit, bool) else (
                    same(a['values'][i], arg[i]) if not hit else True)))
            if self.ch:
                res.append(('hitbounds-iff-clipped', _iff(a['hitbounds'], anyhit)))
            res.append(('argument-array-untouched', same_list(O['arg_after'], arg[:n])))
        elif op == 'reset':
            res.append(('reset-to-defaults', same_list(a['values'], b['defaults'])))
            if self.ch:
                res.append(('hitbounds-cleared', a['hitbounds'] == False))
        elif op in ('clone', 'dict_roundtrip'):
            o = O['other']
            res.append(('original-untouched', unchanged))
            full = conj(same_list(o['values'], b['values']), same_list(o['mins'], b['mins']), same_list(o['maxs'], b['maxs']),
                        same_list(o['defaults'], b['defaults']), o['names'] == b['names'], o['hitbounds'] == b['hitbounds'],
                        o['check_bounds'] == b['check_bounds'], o['check_hitbounds'] == b['check_hitbounds'], o['accept_nan'] == b['accept_nan'])
            res.append(('copy-reproduces-full-observable-state', full))
        return res


def _iff(flag, cond):
    if isinstance(cond, (bool, np.bool_)):
        return bool(flag) == bool(cond)
    if isinstance(flag, (bool, np.bool_)):
        return cond if flag else ~cond
    return flag == cond


def lhs_stub(nsamples, pmins, pmaxs):
    """environment stub for the latin-hypercube sampler on the symbolic path: arbitrary samples within the requested ranges
    (the arguments are only read; the real sampler is the subject of C20)"""
    pmins = list(np.asarray(pmins, dtype=object).flat)
    pmaxs = list(np.asarray(pmaxs, dtype=object).flat)
    out = np.empty((nsamples, len(pmins)), dtype=object)
    for i in range(nsamples):
        for j in range(len(pmins)):
            v = SR(core.fresh_real('lhs'))
            assume(z3.And(v.e >= term(pmins[j]), v.e <= term(pmaxs[j])))
            out[i, j] = v
    return out.view(core.SymArray)


class TransformReadOnly(Case):
    """read-only uses of a transform leave its parameter values, constants and bounds unchanged"""
    prop = 'C12'

    def __init__(self, clsname):
        self.cls = clsname
        self.name = 'transform-readonly:%s' % clsname
        self.params = dict(cls=clsname)
        self.functions = ['hydrodiy.stat.transform.%s' % clsname]

    def modules(self):
        from hydrodiy.stat import transform, sutils
        from hydrodiy.data import containers, dutils
        return [transform, containers, dutils, sutils]

    def inputs(self):
        from harness.C01 import make, sym_vector, domain
        tr = make(self.cls, {})
        P = sym_vector(tr.params, 'p')
        C = sym_vector(tr.constants, 'c')
        x = SR(z3.Real('x0'))
        # a second parameter vector assigned after the first round of calls: the read-only calls that follow (jacobian first) must leave IT in place
        P2 = sym_vector(tr.params, 'r')
        if self.cls == 'Softmax':
            assume(z3.And(x.e >= q(0.01), x.e <= q(0.4)))
        else:
            for c in domain(self.cls, P, C, x):
                assume(c)
            for c in domain(self.cls, P2, C, x):
                assume(c)
        return dict(P=P, C=C, x=x, P2=P2)

    def run(self, I):
        from harness.C01 import make, set_params
        tr = make(self.cls, {})
        set_params(tr, I['P'], I['C'])
        def snap():
            return dict(pv=list(tr.params.values), pmin=list(tr.params.mins), pmax=list(tr.params.maxs), pdef=list(tr.params.defaults),
                        cv=list(tr.constants.values), cmin=list(tr.constants.mins), cmax=list(tr.constants.maxs))
        before = snap()
        sym = isinstance(I['x'], SR)
        if self.cls == 'Softmax':
            x = core.symarray([I['x'], I['x']]).reshape(1, 2) if sym else np.array([[I['x'], I['x']]], dtype=float)
        else:
            x = core.symarray([I['x']]) if sym else np.array([I['x']], dtype=float)
        y = tr.forward(x)
        tr.backward(y)
        tr.jacobian(x)
        str(tr)
        if self.cls != 'LogSinh' or not sym:
            tr.params_logprior()      # LogSinh: scipy norm.logpdf (compiled) cannot take a symbolic value
        from hydrodiy.stat import transform
        old = transform.sutils.lhs
        if sym:
            transform.sutils.lhs = lhs_stub
        try:
            tr.params_sample(nsamples=3)
        finally:
            transform.sutils.lhs = old
        after = snap()
        out = dict(before=before, after=after)
        if I.get('P2'):
            set_params(tr, I['P2'], {})
            before2 = snap()
            tr.jacobian(x)          # the first call after the reassignment
            out.update(before2=before2, after2=snap())
        return out

    def spec(self, I, O, err):
        res = [('no-exception', err is None)]
        if err is not None:
            return res
        b, a = O['before'], O['after']
        for k, label in (('pv', 'parameter-values'), ('pmin', 'parameter-mins'), ('pmax', 'parameter-maxs'), ('pdef', 'parameter-defaults'),
                         ('cv', 'constant-values'), ('cmin', 'constant-mins'), ('cmax', 'constant-maxs')):
            res.append(('%s-unchanged' % label, same_list(a[k], b[k])))
        if 'after2' in O:
            b, a = O['before2'], O['after2']
            for k, label in (('pv', 'parameter-values'), ('cv', 'constant-values'), ('pmin', 'parameter-mins'), ('pmax', 'parameter-maxs')):
                res.append(('%s-unchanged-after-reassignment' % label, same_list(a[k], b[k])))
        return res


class VectorCtor(Case):
    """base case of the induction: the state a constructor call produces is valid (defaults and values inside the bounds, values = defaults,
    no hit), whichever optional arguments are omitted, and clone / dictionary round trip accept it"""
    prop = 'C12'

    def __init__(self, nnames, with_defaults, with_mins, with_maxs):
        self.nn, self.wd, self.wlo, self.whi = nnames, with_defaults, with_mins, with_maxs
        self.name = 'vector:ctor:n%d:defaults=%d:mins=%d:maxs=%d' % (nnames, with_defaults, with_mins, with_maxs)
        self.params = dict(nnames=nnames, defaults=with_defaults, mins=with_mins, maxs=with_maxs)
        self.functions = ['hydrodiy.data.containers.Vector.__init__']

    def modules(self):
        return modules()

    def inputs(self):
        I = dict(mins=[], maxs=[], defaults=[])
        for i in range(self.nn):
            lo, hi, d = sv('min%d' % i), sv('max%d' % i), sv('def%d' % i)
            assume(lo.e + 1 <= hi.e)
            assume(z3.And(d.e >= lo.e, d.e <= hi.e))
            I['mins'].append(lo); I['maxs'].append(hi); I['defaults'].append(d)
        return I

    def run(self, I):
        from hydrodiy.data.containers import Vector
        names = ['p%d' % i for i in range(self.nn)]
        kw = {}
        if self.wd:
            kw['defaults'] = list(I['defaults'])
        if self.wlo:
            kw['mins'] = list(I['mins'])
        if self.whi:
            kw['maxs'] = list(I['maxs'])
        out = dict(raised=None, clone=None, rt=None)
        try:
            v = Vector(names, **kw)
        except ValueError:
            out['raised'] = 'ctor'
            return out
        out['obs'] = observe(v)
        try:
            out['clone'] = observe(v.clone())
            out['rt'] = observe(Vector.from_dict(v.to_dict()))
        except ValueError:
            out['raised'] = 'copy'
        return out

    def spec(self, I, O, err):
        res = [('no-unexpected-exception', err is None)]
        if err is not None:
            return res
        res.append(('constructor-accepts-consistent-arguments', O['raised'] != 'ctor'))
        if O['raised'] == 'ctor':
            return res
        o = O['obs']
        inb = True
        for i in range(self.nn):
            for x in (o['defaults'][i], o['values'][i]):
                lo, hi = o['mins'][i], o['maxs'][i]
                inb = conj(inb, (not is_nan(x)),
                           x >= lo if not (isinstance(lo, float) and math.isinf(lo)) else True,
                           x <= hi if not (isinstance(hi, float) and math.isinf(hi)) else True)
        res.append(('constructed-defaults-and-values-within-bounds', inb))
        res.append(('constructed-values=defaults', same_list(o['values'], o['defaults'])))
        res.append(('constructed-without-hit', o['hitbounds'] == False))
        if self.wd:
            res.append(('given-defaults-kept', same_list(o['defaults'], I['defaults'])))
        if self.wlo:
            res.append(('given-mins-kept', same_list(o['mins'], I['mins'])))
        if self.whi:
            res.append(('given-maxs-kept', same_list(o['maxs'], I['maxs'])))
        res.append(('clone-and-dict-roundtrip-accept-the-constructed-state', O['raised'] is None))
        if O['raised'] is None:
            for nm in ('clone', 'rt'):
                c = O[nm]
                res.append(('%s-reproduces-the-constructed-state' % nm, conj(same_list(c['values'], o['values']), same_list(c['mins'], o['mins']),
                                                                             same_list(c['maxs'], o['maxs']), same_list(c['defaults'], o['defaults']))))
        return res


class TransformFresh(Case):
    """read-only calls on a FRESHLY BUILT transform (parameters symbolic, constants never set: NaN for LogSinh / Manly / BoxCox1*) may raise,
    but never write parameters, constants or bounds"""
    prop = 'C12'

    def __init__(self, clsname):
        self.cls = clsname
        self.name = 'transform-fresh:%s' % clsname
        self.params = dict(cls=clsname)
        self.functions = ['hydrodiy.stat.transform.%s' % clsname]

    def modules(self):
        from hydrodiy.stat import transform, sutils
        from hydrodiy.data import containers, dutils
        return [transform, containers, dutils, sutils]

    def inputs(self):
        from harness.C01 import make, sym_vector
        tr = make(self.cls, {})
        P = sym_vector(tr.params, 'p')
        # the data are concrete (the subject is the object's state, and helpers such as np.nanmax must see ordinary floats)
        return dict(P=P, x=0.25)

    def run(self, I):
        from harness.C01 import make, set_params
        tr = make(self.cls, {})
        set_params(tr, I['P'], {})
        def snap():
            return dict(pv=list(tr.params.values), pmin=list(tr.params.mins), pmax=list(tr.params.maxs), pdef=list(tr.params.defaults),
                        cv=list(tr.constants.values), cmin=list(tr.constants.mins), cmax=list(tr.constants.maxs))
        before = snap()
        x = np.array([[I['x'], I['x']]], dtype=float) if self.cls == 'Softmax' else np.array([I['x'], 2 * I['x']], dtype=float)
        raised = []
        for name, call in (('forward', lambda: tr.forward(x)), ('jacobian', lambda: tr.jacobian(x)), ('backward', lambda: tr.backward(x)), ('str', lambda: str(tr))):
            try:
                call()
            except core.Unsupported:
                raise
            except Exception as e:
                raised.append(name)
        return dict(before=before, after=snap(), raised=raised)

    def spec(self, I, O, err):
        res = [('no-exception', err is None)]
        if err is not None:
            return res
        b, a = O['before'], O['after']
        for k, label in (('pv', 'parameter-values'), ('pmin', 'parameter-mins'), ('pmax', 'parameter-maxs'), ('pdef', 'parameter-defaults'),
                         ('cv', 'constant-values'), ('cmin', 'constant-mins'), ('cmax', 'constant-maxs')):
            res.append(('%s-unchanged-on-fresh-object' % label, same_list(a[k], b[k])))
        return res


def cases(tier):
    out = []
    for op in OPS:
        for finite in (True, False):
            for ch in (0, 1):
                for an in (0, 1):
                    out.append(VectorOp(op, 1 if tier == 'quick' else 2, finite, ch, an, hit0=ch))
    out += [VectorOp('clone', 1, True, 1, 1, 1, nan_state=True), VectorOp('dict_roundtrip', 1, True, 1, 1, 1, nan_state=True),
            VectorOp('clone', 1, True, 1, 0, 0), VectorOp('dict_roundtrip', 1, True, 1, 0, 0), VectorOp('reset', 0, True, 0, 0, 0),
            VectorOp('clone', 0, True, 0, 0, 0), VectorOp('set_all', 2, True, 1, 0, 1), VectorOp('set_attr', 2, True, 1, 0, 0)]
    for wd in (0, 1):
        for wlo in (0, 1):
            for whi in (0, 1):
                out.append(VectorCtor(1 if tier == 'quick' else 2, wd, wlo, whi))
    for n in ['Identity', 'Logit', 'Log', 'BoxCox2', 'BoxCox1lam', 'BoxCox1nu', 'BoxCox2sym', 'YeoJohnson', 'LogSinh', 'Reciprocal', 'Softmax',
              'Sinh', 'Manly']:
        out.append(TransformReadOnly(n))
        out.append(TransformFresh(n))
    return out


def part(tier, seed, workdir):
    return run_cases('C12', cases(tier), tier, seed)


FAMILIES = []
PARTS = [part]
META = dict(
    explanation='inductive step instead of call histories: a real Vector is built by the real constructor with symbolic bounds/defaults, brought to an '
                'arbitrary valid state (symbolic values within bounds, NaN where allowed, arbitrary hit flag), then ONE operation with symbolic '
                'arguments is executed (set by attribute / key / whole vector, reset, clone, to_dict->from_dict, failing assignments) and z3 decides '
                'the post-conditions on every path: values within bounds, NaN only if allowed, rejected assignments leave every observable unchanged, '
                'names/bounds/defaults unchanged and not aliased, hit flag iff clipped, clone and dict round trip reproduce all observables incl. flags. '
                'Since the post-conditions re-establish the pre-state invariant, one step covers histories of any length. Transforms: forward / backward / '
                'jacobian / str / params_logprior / params_sample leave params, constants and their bounds unchanged.',
    bounds=['vectors with 1 name (thorough 2; selected 0- and 2-name cases), finite symbolic bounds at least 1 apart or infinite bounds, all flag '
            'combinations, assigned values >= 1e-6 from a bound or exactly on it, magnitudes <= 1000; 13 transform classes with default options'],
    outside=['to_series (pandas)', 'more than 2 names', 'check_bounds=False vectors'],
    assumptions=['numpy view/copy behaviour is the real one (object arrays)', 'RNG replaced by arbitrary values of the documented range'],
    stubs=['np.random.uniform / permutation'],
)
