"""Which properties are claimed, with what text.  tools/mkmanifest.py turns this into MANIFEST.json."""

TECH_A = 'bounded symbolic execution of the kernels\' LLVM IR (clang -O0 from the current tree) with z3; sat models replayed on the sanitised native build'
TECH_B = 'symbolic execution of the real Python functions on numpy object arrays of z3-backed scalars; z3 decides each path'
TECH_C = 'CrossHair (symbolic execution of Python with z3) on contract functions calling the real hydrodiy.io code'

CLAIMS = {
    'C08': dict(
        text='Every feasible path of c_aggregate / c_flathomogen, for all index vectors, values (finite or NaN) and maxnan within the '
             'length bound, is shown by z3 to agree with a group-wise reference (sum/mean/max/last-valid, NaN policy, totals, rejection of a '
             'decreasing index); unsat = holds within the bound, sat models are replayed on the real build before being reported.',
        note='Bounds: nval<=4 quick / <=6 thorough. Doubles as exact reals + NaN flag (rounding outside). monthly2daily (pandas) is outside the claim. The precondition of the families (int32 index, float64 copies, output buffer NaN where the input is missing, operator / maxnan unchanged, result = kernel output up to iend) is validated by running the real dutils.aggregate / flathomogen with a recording stand-in (concrete scenarios, labelled as such). '
             'Trusted: clang IR lowering, the IR interpreter (validated against the native build on every run), z3.',
        technique=TECH_A, engine='llir', ref='DESIGN.md section 3, C08'),
}

CLAIMS['C07'] = dict(
    text='Every feasible path of c_coord2cell / c_cell2coord / c_cell2rowcol / c_neighbours under symbolic nrows, origin, point and cell number is '
         'shown by z3 to satisfy: row-major numbering, cell2coord = cell centre, point inside a footprint -> that cell, point outside the extent '
         '(any side or diagonal) -> -1, invalid cells flagged, neighbour table; the coord2cell(cell2coord(c)) round trip is decided under the '
         'rounding-error model as a QF_NRA lemma on the quotients the real kernels quantise.',
    note='Bounds: ncols in {1,2,3,5,7,64,1000}, nrows<=1e6 symbolic, nine cell sizes (symbolic in [1e-4,1e4] for the rounding lemma), origins <=1e4 '
         'cells from zero, points >=1e-9 cells from edges. Rounding lemma composes with the exact integer logic by a stated argument (getnxy stubbed). '
         'Trusted: clang lowering, IR interpreter (validated against native build each run), z3.',
    technique=TECH_A, engine='llir', ref='DESIGN.md section 3, C07')

CLAIMS['C06'] = dict(
    text='On every grid within the bound, with all flow-direction codes symbolic, z3 shows on every feasible path of the real kernels that '
         'upstream and downstream are inverse relations (sinks -2, off-grid/invalid -1, no duplicates, packed), that delineate_area returns exactly '
         '{outlet} + cells whose downstream chain reaches the outlet without passing an inlet (each once, empty when nothing drains, error on '
         'cycles / exhausted buffers / invalid arguments), and that river traces and flow-path lengths follow the downstream chain with 1 / sqrt(2) steps.',
    note='Bounds: up/down grids to 3x3; delineation, river, flow paths: grids <= 4 cells quick, <= 6 thorough; inlet sets <= 1 (<= 2 thorough). '
         'Codes from {8 ESRI, 0, one invalid}. Hole filling (scipy) outside. Trusted: clang lowering, IR interpreter (validated vs native each run), z3.',
    technique=TECH_A, engine='llir', ref='DESIGN.md section 3, C06')

CLAIMS['C11'] = dict(
    text='With flow codes and the accumulated field both symbolic, z3 shows on every feasible path of c_accumulate that, on acyclic grids, every cell that '
         'drains into another carries the sum of the field over itself and every cell draining through it, terminal cells carry the no-data value, the '
         'input buffers are unchanged, and cyclic grids / reduced limits terminate.',
    note='Bounds: grids <= 4 cells quick (1x1..2x2), <= 6 thorough; exact reals (rounding outside). A symbolic field distinguishes "add the source value" '
         'from "add the visited value", which the suite\'s uniform fields cannot. Trusted: clang lowering, IR interpreter (validated vs native each run), z3.',
    technique=TECH_A, engine='llir', ref='DESIGN.md section 3, C11')

CLAIMS['C03'] = dict(
    text='With all observations and ensemble members symbolic (ties are just feasible valuations), z3 shows on every feasible path of c_crps '
         '(including the sort through the real comparator) that the CRPS equals mean_i(E|X-y| - 0.5 E|X-X\'|), that crps = reliability + potential and '
         'resolution = uncertainty - potential, that reliability, potential, uncertainty are non-negative, that uncertainty is the CRPS of the '
         'climatology and that the reliability table is consistent; order, shift and scale laws follow from equality with the symmetric definition.',
    note='Bounds: (forecasts x members) up to 2x2, 1x3, 3x1 quick; 3x2, 2x3, 1x4, 4x1 thorough. Exact reals with exact rational constants (rounding outside). '
         'qsort modelled as stable insertion sort calling the real comparator; malloc never fails. Dropping of missing observations happens in the '
         'Python wrapper (pandas) and is outside this kernel-level claim.',
    technique=TECH_A, engine='llir', ref='DESIGN.md section 3, C03')
CLAIMS['C17'] = dict(
    text='For every order 1..10 with symbolic coefficients, mean, initial value and series, z3 shows on every feasible path of the real kernels and of '
         'their compositions that sim equals the reference recursion, residual(sim(e)) = e (missing innovations = 0), sim(residual(y)) = y on '
         'non-missing y, missing inputs give zero residuals, and orders 0/11/-1 and NaN parameters are rejected.',
    note='Bounds: length order+2 quick / order+4 thorough, NaN allowed at selected positions incl. the first steps, sum|phi|<=1.5, magnitudes <=100. '
         'Exact reals (polynomial arithmetic). Python wrapper defaults outside. Trusted: clang lowering, IR interpreter (validated vs native), z3.',
    technique=TECH_A, engine='llir', ref='DESIGN.md section 3, C17')

CLAIMS['C14'] = dict(
    text='With symbolic time stamps (any spacing, duplicates, stamps on period boundaries), values (non-negative, negative, NaN) and maxgapsec, z3 '
         'shows on every feasible path of c_var2h that each non-final period is missing when an overlapping interval is invalid or the data do not '
         'cover it, present when every touching interval is valid, and then equal to the exact integral of the piecewise-linear interpolant '
         '(rainfall: increments prorated by overlap) divided by the period; inputs are unchanged and the final period is missing.',
    note='Bounds: 2-3 observations (4 thorough), 2-3 output periods (4 thorough), periods 1800/3600, first stamp in the hour before the origin, '
         'increments <= 5 h. Stamps are real-valued stand-ins constrained by the consequences of integrality (superset). Exact reals. The pandas side of '
         'the wrapper (index units, time zones) is outside; hstartsec/nvalh are tied to the stamps as dutils.var2h computes them.',
    technique=TECH_A, engine='llir', ref='DESIGN.md section 3, C14')
CLAIMS['C10'] = dict(
    text='Kernel level: for all ensemble values exactly tied or more than the tolerance apart, z3 shows on every feasible path of c_ensrank (pooled '
         'sort through the real comparator, tie sequences) that fmat equals the Weigel-Mason pooled mid-rank comparison and ranks equal 1 + sum of u, '
         'hence depend only on the pooled order; c_ad_test sorts its buffer, rejects values outside [0,1] and NaN, and its statistic equals the '
         'textbook formula on the sorted sample.',
    note='Bounds: ensrank up to 2x2 and 3x1 quick (3x2, 2x3, 4x1 thorough), eps=1e-6; AD n<=3 (4 thorough). log uninterpreted; p-value routines stubbed '
         '(AD p-values, alpha, pit(random=False) are outside: scipy / compiled tables). Engine B adds pit(random=True), the single-member dscore and '
         'cramer_von_mises_test on symbolic samples of 1-2 values (3 thorough) in any order plus ascending 4-/5-value slices that reach the end of the p-value '
         'table: statistic = textbook formula, p-value in [0,1] (np.interp on the 500-row table executed by bisection). qsort = stable insertion sort (glibc qsort is stable).',
    technique=TECH_A, engine='llir', ref='DESIGN.md section 3, C10')
CLAIMS['C20'] = dict(
    text='pareto_front kernel: with symbolic coordinates (finite or NaN) and both orientations z3 shows on every feasible path that a point is flagged '
         'dominated iff another point is strictly better in every coordinate where both are non-missing, that complete data leave a non-dominated '
         'point, and that reversing the orientation equals negating the data.',
    note='Bounds: up to 3x2 / 4x1 points x dims quick, 4x2, 3x3, 5x1 thorough. Engine B adds ppos, lhs, boxplot_stats (percentile calls checked, numpy.nanpercentile a stub) and '
         'standard_normal on 2-3 (4) symbolic values with ties (ranks = average ranks, scores = ppf of their plotting positions, order of scores = order of data; pandas '
         'rank and norm.ppf are validated stubs). Grouped box plots and violin statistics are outside (pandas / '
         'numpy percentile / KDE internals).',
    technique=TECH_A, engine='llir', ref='DESIGN.md section 3, C20')

CLAIMS['C15'] = dict(
    text='With all vertex and point coordinates symbolic, z3/nlsat shows on every feasible path of c_inside (extent computed as the wrapper does) that the '
         'answer is the parity of the crossing number under the half-open rule, for triangles (quadrilaterals at thorough tier) in any orientation / '
         'start vertex / with horizontal, vertical, repeated coordinates and points level with a vertex; and, as a loop-body lemma started '
         'mid-function from an arbitrary state, that one iteration of the edge loop toggles the parity iff that edge is crossed and advances to the '
         'next vertex - which by induction covers any number of vertices.',
    note='Assumes the property\'s own precondition in the quantities the algorithm compares (coordinates equal or >1e-6 apart; point off every edge line it '
         'is level with by 1e-6 relative). Exact reals. Trusts the textbook theorem that the half-open crossing parity is the even-odd interior, and the '
         'induction step from the lemma. cells_inside_polygon = C07 cell2coord composed with this.',
    technique=TECH_A, engine='llir', ref='DESIGN.md section 3, C15')

CLAIMS['C16'] = dict(
    text='c_cell2coord -> c_intersect composed as Catchment.intersect does, with symbolic distinct catchment cells and symbolic origins of both grids: z3 '
         'shows on every feasible path that each catchment cell whose centre falls inside the coarse grid contributes to exactly one coarse cell, that '
         'every coarse cell is listed at most once with weight = count x area ratio, and that weights x coarse area equal the catchment area inside. '
         'c_voronoi with symbolic points: weights are non-negative, sum to 1 and equal the fraction of cells whose nearest point (ties to the lowest '
         'index) is that point.',
    note='Bounds: fine grid 2x2 (thorough 3x3), coarse grid <= 2x2, ratios 1-2 (thorough 1-4), 1-2 catchment cells (thorough 3); voronoi 1-3 cells, 1-2 '
         'points (thorough 3). sqrt modelled by order-only facts. The numpy scatter into area_grid is outside. Exact reals.',
    technique=TECH_A, engine='llir', ref='DESIGN.md section 3, C16')

CLAIMS['C01'] = dict(
    text='The real constructors, Vector setters and public forward/backward/backward_censored of all 13 transform classes are executed on symbolic '
         'scalars (parameters over their whole declared interval, so the branch values lam = 0, lam = 2, |lam| <= 1e-10 are whole path regions, not '
         'samples); on every feasible path z3 decides backward(forward(x)) = x, forward(backward(y)) = y, finiteness and backward_censored >= censor.',
    note='Exact real arithmetic with EXP/LOG uninterpreted + sound ground axioms: unsat is sound for the real functions; sat models are replayed on the '
         'real float code (1e-6 relative) and only reproducing ones are reported. Yeo-Johnson / LogSinh paths that the abstraction cannot close are counted '
         'as inconclusive in the evidence. Arrays of 1 element (2 thorough); listed non-default constructor options.',
    technique=TECH_B, engine='pysym', ref='DESIGN.md section 3, C01')
CLAIMS['C02'] = dict(
    text='The real forward of every transform class is run on dual numbers with a symbolic value part, giving d forward/dx as a z3 term from the real '
         'code; on every feasible path z3 decides that it equals the real jacobian, that the jacobian is positive, and that forward is increasing '
         'between two symbolic domain points; Softmax: determinant of the AD partials equals the jacobian.',
    note='Trusted base: the differentiation rules of the Dual class, the EXP/LOG axioms. Exact reals; replay oracle = 5-point central difference on the '
         'real float code (1e-4). Inconclusive paths (Logit edges, LogSinh) are counted in the evidence. Extra cases: non-default constructor options (base, '
         'mininu, minilam), LogSinh with a = b = 1 pinned (domain guard decided in linear arithmetic), Softmax down to components of 1e-6, and per class '
         '"jacobian > 0 for every parameter vector the DECLARED bounds accept" (no harness restriction on the parameters).',
    technique=TECH_B, engine='pysym', ref='DESIGN.md section 3, C02')

CLAIMS['C12'] = dict(
    text='Inductive step over the real Vector code: from an arbitrary valid state (symbolic bounds, defaults, values, NaN where allowed, every flag '
         'combination) ONE operation with symbolic arguments is executed and z3 decides on every path that values stay within bounds, NaN only if '
         'allowed, rejected assignments leave all observables unchanged, names/bounds/defaults are unchanged and not aliased, the hit flag is raised '
         'iff the assignment was clipped, and clone / to_dict->from_dict reproduce the full observable state incl. flags; the post-conditions '
         're-establish the invariant, so histories of any length are covered. Read-only uses of the 13 transforms leave params, constants and bounds unchanged, '
         'also on a freshly built object whose constants were never set (calls may raise, never write).',
    note='Bounds: 1 name (2 thorough), finite symbolic or infinite bounds, |values| <= 1000, assigned values >= 1e-6 from a bound or on it. A counterexample '
         'from a pre-state no history reaches would mean the invariant is too weak (to be strengthened, not reported). latin-hypercube sampler and RNG '
         'stubbed by arbitrary values of their range on the symbolic path.',
    technique=TECH_B, engine='pysym', ref='DESIGN.md section 3, C12')

CLAIMS['C04'] = dict(
    text='The real bias / nse / kge / corr are executed on symbolic series with a real transform object with symbolic parameters; on every path z3 '
         'decides that the score equals the textbook definition applied to trans.forward(obs), trans.forward(sim) with incomplete pairs removed, that '
         'non-degenerate series never give NaN, nse <= 1, perfect simulations score 0/1/1. binary() on a symbolic table of positive integer counts: '
         'each of the nine scores equals its contingency-table definition for all counts (odds ratio below, at and above 1).',
    note='Bounds: length 2-3 (4 thorough), Identity and Log (thorough + BoxCox2, Reciprocal, Sinh), one concrete NaN position with excludenull. np.corrcoef = its '
         'formula; spearmanr is a stub whose arguments are checked; confusion_matrix (pandas crosstab) is outside. corr also with 2-member ensembles '
         '(statistic of the TRANSFORMED members), fully symbolic and on a 2-dimensional slice; MCC with its sign. kge under Log can come back solver-unknown '
         '(counted as inconclusive). binary(): the table is held in int64 as in the code and every integer +,-,* carries the obligation that it does not wrap (counts up '
         'to 1e6 per cell). np.log of a non-positive argument is NaN as in numpy: with excludenull a pair made incomplete BY THE TRANSFORM is dropped (Log / BoxCox2 cases '
         'with one out-of-domain value).',
    technique=TECH_B, engine='pysym', ref='DESIGN.md section 3, C04')

CLAIMS['C05'] = dict(
    text='Every kernel reachable from a public wrapper (37 entry points) is executed symbolically under the precondition its Cython and Python wrappers '
         'establish, with symbolic contents (finite, NaN, huge, infinities where a float->int conversion follows), cell numbers and scalar options at '
         'and beyond their documented ranges; the interpreter emits an obligation at every load/store, integer division, nsw operation, float->int '
         'conversion and free, and z3 shows each is unviolable within the length bound - or returns inputs, which are replayed under '
         'AddressSanitizer + UBSan on the natively compiled kernel and reported only if the sanitizer confirms.',
    note='Bounds: lengths 0..3 (0..4 thorough), grids <= 1x3 quick / 2x2 thorough, orders 0..12. Instances that exhaust their time budget are listed as '
         'inconclusive, never as passed. malloc never fails; Cython-generated code trusted. '
         'Wrapper-side guards (zero-member ensembles, npoints, length mismatches) are validated with a recording '
         'stand-in on every run. The two former known findings (voronoi dead read, getdate out-of-range cast) are repaired; no open finding is listed.',
    technique=TECH_A, engine='llir', ref='DESIGN.md section 3, C05')

CLAIMS['C19'] = dict(
    text='get_batch is executed with a symbolic number of elements (up to 1e6) for every batch index of each concrete number of batches: z3 decides that '
         'the batches are contiguous, ordered, disjoint, cover every element once and differ in size by at most one, and that invalid calls raise '
         'ValueError. OptionManager: CrossHair confirms over all paths (symbolic integer lists) that from_cartesian_product enumerates every combination '
         'exactly once, that to_dict/from_dict give equality in both directions also with renamed keys, that different managers compare unequal, and that a '
         'bare string of 1-3 characters is one option value.',
    note='np.arange/np.array_split are replaced by a range model validated against the real numpy on every run. Bounds: nbatch 1..8 (16 thorough); option '
         'lists of 1-3 distinct integers. OptionManager.find is attempted in a tighter bound and reported inconclusive when CrossHair does not finish '
         '(regex on str(int)); SiteBatch.search is only enumerated on small site lists.',
    technique='symbolic execution of the real Python with z3 (own executor for get_batch; CrossHair for the option manager)', engine='pysym+ch',
    ref='DESIGN.md section 3, C19')

CLAIMS['C09'] = dict(
    text='CrossHair (symbolic execution of the real hydrodiy.io.csv functions with z3) confirms over all paths that a single-line comment value of up '
         'to 4 arbitrary characters is returned unchanged by _header2comment under a short key and that the lines written by _csvhead read back '
         '(through the reader\'s prefix stripping) into the caller\'s comments and recorded counts; 25-character keys and symbolic counts are attempted '
         'and reported inconclusive when CrossHair does not finish.  The storage modes (plain, compressed under .csv/.zip/extension-less/dotted names, '
         'archive member in a sub-folder) form a finite configuration space and are enumerated on real temporary files.',
    note='Header logic: values <= 4 chars, no newline / outer blanks. Everything pandas does with the body is only exercised by the enumerated scenario '
         '(one frame with float / int / text columns, text containing commas, quotes, colons and hashes), not decided symbolically: the property is claimed in part.',
    technique=TECH_C, engine='ch', ref='DESIGN.md section 3, C09')

CLAIMS['C18'] = dict(
    text='Narrow claim: the alias relation between caller-visible arrays (incl. the data blocks of Grid arguments) and kernel arguments is recorded by '
         'running the real wrappers with a recording stand-in over a dtype/layout grid; for every kernel buffer that a caller array can alias, z3-backed '
         'symbolic execution of the kernel IR shows that no store instruction targets that buffer on any feasible path and that the kernel writes no '
         'global (hence is a function of its arguments); an aliasing pair not in the verified table is a harness error.',
    note='The solver-backed claim is the mechanism "caller data never reaches a kernel that writes it". The Python layer (about 80 public functions and '
         'methods of metrics, sutils, armodels, transform, dutils, qualitycontrol, signatures, gutils, putils, boxplot, Grid and grid-level functions) is '
         'covered by a concrete probe only: each function is called twice under the same seed with arguments whose writeable flag is cleared, over the '
         'dtype/layout grid - an in-place write raises whatever the values, arguments are compared bit for bit, the two results must agree. numpy copy/view '
         'decisions are assumed to depend on dtype and layout, not on values.',
    technique=TECH_A + ' + recorded alias relation', engine='llir', ref='DESIGN.md section 3, C18')

PENDING = 'check not built yet in this session (planned, see DESIGN.md section 3)'
NOT_APPLICABLE = {
    'C13': 'persistence is carried by numpy tofile/fromfile, dtype objects, zipfile and float repr: no arithmetic core a solver can be given; '
           'finite configuration space is the domain of enumeration, a different technique (DESIGN.md section 4)',
}
ALL = ['C%02d' % i for i in range(1, 21)]
