"""C02 — the Jacobian is the derivative of forward and forward is increasing (engine B + forward-mode AD through the real code)."""
import numpy as np
import z3
from engine.pysym import core
from engine.pysym.core import SR, Dual, assume
from engine.pysym.runner import Case, close, is_nan, run_cases
from engine.llir.xr import rv as q
from harness.C01 import modules, make, sym_vector, set_params, domain, pin_params


def central_diff(f, x, h):
    """5-point central difference with exactly representable steps (replay oracle, as the property describes)"""
    return (-f(x + 2 * h) + 8 * f(x + h) - 8 * f(x - h) + f(x - 2 * h)) / (12 * h)


class JacCase(Case):
    prop = 'C02'
    tol = 1e-4

    def __init__(self, clsname, ctor=None, pin=None, xmin=0.01):
        self.cls, self.ctor, self.pin, self.xmin = clsname, dict(ctor or {}), dict(pin or {}), xmin
        self.name = 'jacobian:%s%s%s%s' % (clsname, '(%s)' % ','.join('%s=%s' % kv for kv in sorted(self.ctor.items())) if self.ctor else '',
                                         '[%s]' % ','.join('%s=%s' % kv for kv in sorted(self.pin.items())) if self.pin else '',
                                         '[x>=%g]' % xmin if xmin != 0.01 else '')
        self.params = dict(cls=clsname, ctor=self.ctor, pin=self.pin, xmin=xmin)
        self.functions = ['hydrodiy.stat.transform.%s.forward/jacobian' % clsname]

    def modules(self):
        return modules()

    def inputs(self):
        tr = make(self.cls, self.ctor)
        P = pin_params(sym_vector(tr.params, 'p'), self.pin)
        C = pin_params(sym_vector(tr.constants, 'c'), self.pin)
        if self.cls == 'Softmax':
            xs = [SR(z3.Real('x%d' % i)) for i in range(2)]
            for v in xs:
                assume(z3.And(v.e >= q(self.xmin), v.e <= 1))
            assume(xs[0].e + xs[1].e <= q(0.99))
        else:
            xs = [SR(z3.Real('x0')), SR(z3.Real('x1'))]
            for v in xs:
                for c in domain(self.cls, P, C, v):
                    assume(c)
            assume(xs[0].e < xs[1].e)
            if 'mininu' in self.ctor and self.cls in ('Log', 'BoxCox2', 'BoxCox1lam', 'BoxCox1nu'):
                # the code's own domain test for the jacobian is x + nu > mininu (NaN below it, anchor "NaN outside the domain via np.where")
                nu = (P['nu'] if 'nu' in P else C['nu']).e
                assume(xs[0].e + nu >= q(self.ctor['mininu']) + q(0.001))
        return dict(P=P, C=C, x=xs)

    def run(self, I):
        tr = make(self.cls, self.ctor)
        set_params(tr, I['P'], I['C'])
        sym = any(isinstance(v, SR) for v in I['x'])
        if self.cls == 'Softmax':
            if not sym:
                x = np.array([I['x']], dtype=float)
                f = lambda xx: tr.forward(xx)[0]
                h = 2.0 ** -12
                J = np.zeros((2, 2))
                for j in range(2):
                    e = np.zeros((1, 2)); e[0, j] = h
                    J[:, j] = (-f(x + 2 * e) + 8 * f(x + e) - 8 * f(x - e) + f(x - 2 * e)) / (12 * h)
                return dict(det=float(np.linalg.det(J)), jac=float(tr.jacobian(x)[0]))
            parts = []
            for j in range(2):
                row = [Dual(I['x'][k], 1.0 if k == j else 0.0) for k in range(2)]
                y = tr.forward(core.symarray(row).reshape(1, 2))
                parts.append([v.d for v in np.asarray(y, dtype=object).flat])
            det = parts[0][0] * parts[1][1] - parts[0][1] * parts[1][0]
            jac = tr.jacobian(core.symarray(I['x']).reshape(1, 2))
            return dict(det=det, jac=list(np.asarray(jac, dtype=object).flat)[0])
        if not sym:
            x0 = float(I['x'][0])
            f = lambda v: float(np.asarray(tr.forward(np.array([v], dtype=float))).flat[0])
            h = max(abs(x0), 1.0) * 2.0 ** -14
            tr2 = make(self.cls, self.ctor)
            set_params(tr2, I['P'], I['C'])
            jac = float(np.asarray(tr2.jacobian(np.array([x0], dtype=float))).flat[0])
            d = central_diff(f, x0, h)
            ys = [f(float(v)) for v in I['x']]
            return dict(d=d, jac=jac, y=ys)
        # the jacobian is asked first, on a freshly built object (its value must not depend on an earlier forward call)
        tr2 = make(self.cls, self.ctor)
        set_params(tr2, I['P'], I['C'])
        jac = list(np.asarray(tr2.jacobian(core.symarray([I['x'][0]])), dtype=object).flat)[0]
        xd = core.symarray([Dual(I['x'][0], 1.0)])
        yd = list(np.asarray(tr.forward(xd), dtype=object).flat)[0]
        ys = list(np.asarray(tr.forward(core.symarray(I['x'])), dtype=object).flat)
        return dict(d=yd.d if isinstance(yd, Dual) else 0.0, jac=jac, y=ys)

    def spec(self, I, O, err):
        res = [('no-exception', err is None)]
        if err is not None:
            return res
        if self.cls == 'Softmax':
            return res + [('jacobian=det-of-partials', (not is_nan(O['jac'])) and close(O['jac'], O['det'], self.tol)),
                          ('jacobian>0', (not is_nan(O['jac'])) and O['jac'] > 0)]
        res.append(('jacobian=d(forward)/dx', (not is_nan(O['jac'])) and close(O['jac'], O['d'], self.tol)))
        res.append(('jacobian>0', (not is_nan(O['jac'])) and O['jac'] > 0))
        y0, y1 = O['y']
        res.append(('forward-increasing', (not is_nan(y0)) and (not is_nan(y1)) and (y0 <= y1 if isinstance(y0, float) else y0 < y1)))
        return res


class DeclaredBounds(Case):
    """the DECLARED parameter bounds keep the transform increasing: parameters range over everything the real Vector accepts (no harness
    restriction such as scale >= 0.001), x over the bare domain; only positivity of the jacobian is asserted"""
    prop = 'C02'
    tol = 1e-4

    def __init__(self, clsname):
        self.cls = clsname
        self.name = 'declared-bounds:%s' % clsname
        self.params = dict(cls=clsname)
        self.functions = ['hydrodiy.stat.transform.%s.__init__/jacobian' % clsname]

    def modules(self):
        return modules()

    def inputs(self):
        tr = make(self.cls, {})
        P = sym_vector(tr.params, 'p')
        C = sym_vector(tr.constants, 'c')
        x = SR(z3.Real('x0'))
        for c in domain(self.cls, P, C, x, light=True):
            assume(c)
        return dict(P=P, C=C, x=[x])

    def run(self, I):
        tr = make(self.cls, {})
        set_params(tr, I['P'], I['C'])
        sym = isinstance(I['x'][0], SR)
        x = core.symarray(I['x']) if sym else np.array(I['x'], dtype=float)
        jac = list(np.asarray(tr.jacobian(x), dtype=object).flat)[0]
        # what the object actually holds after the assignment (a bound that clips shows here)
        held = [v for v in np.asarray(tr.params.values, dtype=object).flat]
        return dict(jac=jac, held=held)

    def spec(self, I, O, err):
        res = [('no-exception', err is None)]
        if err is not None:
            return res
        return res + [('jacobian>0-over-declared-bounds', (not is_nan(O['jac'])) and O['jac'] > 0)]


def cases(tier):
    names = ['Identity', 'Logit', 'Log', 'BoxCox2', 'BoxCox1lam', 'BoxCox1nu', 'BoxCox2sym', 'YeoJohnson', 'LogSinh', 'Reciprocal', 'Softmax',
             'Sinh', 'Manly']
    out = [JacCase(n) for n in names]
    out += [JacCase('Log', dict(base=10.0)), JacCase('BoxCox2', dict(minilam=-1.0)), JacCase('Reciprocal', dict(mininu=0.5)),
            JacCase('LogSinh', pin=dict(loga=0.0, logb=0.0)), JacCase('Softmax', xmin=2.0 ** -20)]
    out += [DeclaredBounds(n) for n in names if n != 'Softmax']
    out += [JacCase('YeoJohnson', pin=dict(lam=l)) for l in (0.0, 0.5, 1.0, 2.0)] + [JacCase('BoxCox2', pin=dict(lam=l)) for l in (0.0, 0.5, 2.0)]
    out += [JacCase('Manly', pin=dict(lam=0.0)), JacCase('BoxCox2sym', pin=dict(lam=0.0))]
    if tier == 'thorough':
        out += [JacCase('Log', dict(base=2.0)), JacCase('Log', dict(mininu=0.5)), JacCase('BoxCox2sym', dict(minilam=-1.0)), JacCase('BoxCox1nu', dict(minilam=-1.0)),
                JacCase('BoxCox2', dict(mininu=0.25))]
    return out


def part(tier, seed, workdir):
    return run_cases('C02', cases(tier), tier, seed)


FAMILIES = []
PARTS = [part]
META = dict(
    explanation='the real forward of every transform class is run on DUAL numbers (value + derivative, a dozen differentiation rules) whose value part '
                'is symbolic, so that d forward/dx is obtained as a z3 term from the real code on each path; z3 decides that it equals the value '
                'returned by the real jacobian on the same path, that the jacobian is positive, and (two symbolic points x0 < x1) that forward is '
                'increasing; Softmax: determinant of the 2x2 matrix of AD partials equals the real jacobian',
    bounds=['13 classes + non-default constructor options; scalar x over the domain and conditioning region of C01; parameters over their declared intervals'],
    outside=['the 1e-4 float tolerance (exact reals; candidates are replayed with a 5-point central difference with exactly representable steps)',
             'points on a seam between branches'],
    assumptions=['differentiation rules of Dual (+,-,*,/,pow,exp,log,sqrt) are the trusted base', 'EXP/LOG uninterpreted with ground axioms'],
    stubs=['numpy/math module globals replaced by thin proxies'],
)
