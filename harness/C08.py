"""C08 — aggregation / flathomogen reduce by group and conserve totals (engine A, XR domain)."""
from engine.llir.harness import Family, Scalar, Buf, KnownPred
from engine.ops import *

I32 = (-2 ** 31, 2 ** 31 - 1)


def groups(idx):
    """group number of each position for a non-decreasing index (symbolic or concrete)"""
    g = [0]
    for i in range(1, len(idx)):
        g.append(g[-1] + iite(idx[i] != idx[i - 1], 1, 0))
    return g


def nondecreasing(idx):
    return forall(idx[i] <= idx[i + 1] for i in range(len(idx) - 1))


class Aggregate(Family):
    prop = 'C08'
    name = 'aggregate'
    pkg = 'data'
    kernel = 'c_aggregate'
    srcfile = 'data/c_dutils.c'

    def instances(self, tier):
        top = 4 if tier == 'quick' else 6
        return [dict(nval=n, op=op) for n in range(1, top + 1) for op in (0, 1, 2, 3)]

    def cost(self, inst):
        return 4 ** inst['nval']

    def inputs(self, inst, S):
        n = inst['nval']
        return dict(maxnan=S.int('maxnan', -2, n + 1),
                    idx=[S.int('idx%d' % i, *I32) for i in range(n)],
                    x=[S.real('x%d' % i, nan=True) for i in range(n)])

    def args(self, inst, I):
        n = inst['nval']
        # outputs = 0.*inputs in the wrapper: NaN where the input is NaN, else 0; iend = [0]
        out0 = [fmul(0.0, v) for v in I['x']]
        return [Scalar('i32', n), Scalar('i32', inst['op']), Scalar('i32', I['maxnan']),
                Buf('aggindex', 'i32', I['idx']), Buf('inputs', 'double', I['x']),
                Buf('outputs', 'double', out0, out=True), Buf('iend', 'i32', [0], out=True)]

    def spec(self, inst, I, O):
        n, op = inst['nval'], inst['op']
        idx, x, maxnan = I['idx'], I['x'], I['maxnan']
        mono = nondecreasing(idx)
        g = groups(idx)
        ngroups = g[-1] + 1
        out = O['outputs']
        ret = O['ret']
        res = [('decreasing-index-rejected', b_implies(b_not(mono), ret > 0)),
               ('accepted', b_implies(mono, ret == 0)),
               ('ngroups', b_implies(mono, O['iend'][0] == ngroups)),
               ('inputs-unchanged', forall(fsame(a, b) for a, b in zip(O['inputs'], x)))]
        for j in range(n):
            mem = [g[i] == j for i in range(n)]
            valid = [b_and(mem[i], b_not(fisnan(x[i]))) for i in range(n)]
            nnan = count(b_and(mem[i], fisnan(x[i])) for i in range(n))
            cnt = count(valid)
            live = b_and(mono, j < ngroups)
            toomany = nnan > maxnan
            res.append(('nan-policy[%d]' % j, b_implies(live, b_eq(fisnan(out[j]), toomany))))
            ok = b_and(live, b_not(toomany))
            if op == 0:
                expect = fsum(fite(zbool(valid[i]), x[i], 0.0) for i in range(n))
                res.append(('sum[%d]' % j, b_implies(ok, fsame(out[j], expect, self.tol))))
            elif op == 1:
                s = fsum(fite(zbool(valid[i]), x[i], 0.0) for i in range(n))
                # mean of the non-missing values; a group with no non-missing value is unconstrained
                res.append(('mean[%d]' % j, b_implies(b_and(ok, cnt > 0), fsame(fmul(out[j], cnt), s, self.tol))))
            elif op == 2:
                res.append(('max-upper[%d]' % j, b_implies(b_and(ok, cnt > 0), forall(b_implies(valid[i], fge(out[j], x[i])) for i in range(n)))))
                res.append(('max-attained[%d]' % j, b_implies(b_and(ok, cnt > 0), exists(b_and(valid[i], fsame(out[j], x[i])) for i in range(n)))))
            else:
                res.append(('tail[%d]' % j, b_implies(b_and(ok, cnt > 0), exists(
                    b_and(valid[i], fsame(out[j], x[i]), b_not(exists(valid[k] for k in range(i + 1, n)))) for i in range(n)))))
        if op == 0:
            # totals conserved when no group is flagged missing
            allok = b_and(mono, forall(b_not(b_and(j < ngroups, fisnan(out[j]))) for j in range(n)))
            tot_in = fsum(fite(zbool(b_not(fisnan(v))), v, 0.0) for v in x)
            tot_out = fsum(fite(zbool(j < ngroups), out[j], 0.0) for j in range(n))
            res.append(('total-conserved', b_implies(allok, fsame(tot_in, tot_out, self.tol))))
        return res


class FlatHomogen(Family):
    prop = 'C08'
    name = 'flathomogen'
    pkg = 'data'
    kernel = 'c_flathomogen'
    srcfile = 'data/c_dutils.c'

    def instances(self, tier):
        top = 4 if tier == 'quick' else 6
        return [dict(nval=n) for n in range(1, top + 1)]

    def cost(self, inst):
        return 4 ** inst['nval']

    def inputs(self, inst, S):
        n = inst['nval']
        return dict(maxnan=S.int('maxnan', -2, n + 1),
                    idx=[S.int('idx%d' % i, *I32) for i in range(n)],
                    x=[S.real('x%d' % i, nan=True) for i in range(n)])

    def args(self, inst, I):
        n = inst['nval']
        out0 = [fmul(0.0, v) for v in I['x']]
        return [Scalar('i32', n), Scalar('i32', I['maxnan']), Buf('aggindex', 'i32', I['idx']),
                Buf('inputs', 'double', I['x']), Buf('outputs', 'double', out0, out=True)]

    def spec(self, inst, I, O):
        n = inst['nval']
        idx, x, maxnan = I['idx'], I['x'], I['maxnan']
        mono = nondecreasing(idx)
        out, ret = O['outputs'], O['ret']
        res = [('decreasing-index-rejected', b_implies(b_not(mono), ret > 0)),
               ('accepted', b_implies(mono, ret == 0)),
               ('inputs-unchanged', forall(fsame(a, b) for a, b in zip(O['inputs'], x)))]
        for i in range(n):
            mem = [idx[k] == idx[i] for k in range(n)]
            valid = [b_and(mem[k], b_not(fisnan(x[k]))) for k in range(n)]
            nnan = count(b_and(mem[k], fisnan(x[k])) for k in range(n))
            cnt = count(valid)
            s = fsum(fite(zbool(valid[k]), x[k], 0.0) for k in range(n))
            res.append(('missing-stays-missing[%d]' % i, b_implies(b_and(mono, fisnan(x[i])), fisnan(out[i]))))
            res.append(('group-mean[%d]' % i, b_implies(b_and(mono, b_not(fisnan(x[i])), nnan <= maxnan),
                                                       fsame(fmul(out[i], cnt), s, self.tol))))
            res.append(('nan-policy[%d]' % i, b_implies(b_and(mono, b_not(fisnan(x[i]))), b_eq(fisnan(out[i]), nnan > maxnan))))
        return res


def wrapper_buffers(tier):
    """dutils.aggregate / dutils.flathomogen: what the kernels receive is what the symbolic families assume - int32 index and float64 copies of
    the caller's data, the operator and maxnan unchanged, an output buffer that is NaN wherever the input is missing (c_flathomogen and the
    head of c_aggregate rely on it) - the caller's arrays stay untouched, an error code becomes an exception and the result is the kernel's
    output (truncated to iend for aggregate)"""
    import numpy as np
    from hydrodiy.data import dutils as D
    from engine.contracts import Recorder, patched_module
    out = []
    nan = np.nan
    series = [np.array([1.5, nan, -2.0, 0.0, nan, 7.0]), np.array([nan]), np.array([3.0]), np.array([nan, nan, 1.0, 2.0]),
              np.array([1, 2, 3, 4], dtype=np.int64), np.array([0.5, 1.5, nan, 2.5, 3.5, nan, nan, 8.0])[::2]]
    for x in series:
        n = len(x)
        for idx in (np.arange(n) // 2, np.zeros(n, dtype=np.int64), list(range(n)), (np.arange(n) // 2 + 2 ** 31 - 3).astype(np.int64) - 2 ** 31):
            x0 = np.array(x, copy=True)
            idx0 = np.array(idx, copy=True)
            for maxnan in (0, 1, 3):
                tag = dict(n=n, maxnan=maxnan, dtype=str(x.dtype), x=[None if v != v else float(v) for v in x0.astype(float)])

                def fh(c):
                    c.raw_args[3][:] = np.where(np.isnan(c.raw_args[3]), c.raw_args[3], 42.0)
                    return 0
                rec = Recorder({'flathomogen': fh})
                with patched_module(D, 'c_hydrodiy_data', rec):
                    res = D.flathomogen(idx, x, maxnan)
                c = rec.calls[-1]
                want_out = np.isnan(x0.astype(float))
                out.append(('flathomogen-output-buffer-nan-where-input-missing', bool(np.array_equal(np.isnan(c.args[3]), want_out)) and len(c.args[3]) == n, tag))
                out.append(('flathomogen-kernel-gets-the-data', int(c.args[0]) == maxnan and c.args[1].dtype == np.int32 and list(c.args[1]) == list(np.asarray(idx0))
                            and c.args[2].dtype == np.float64 and np.array_equal(c.args[2], x0.astype(float), equal_nan=True), tag))
                out.append(('flathomogen-returns-kernel-output', bool(np.array_equal(res, np.where(want_out, nan, 42.0), equal_nan=True)), tag))
                out.append(('flathomogen-arguments-untouched', bool(np.array_equal(x, x0, equal_nan=True)) and np.array_equal(np.asarray(idx), idx0), tag))
                for op in (0, 1, 2, 3):
                    def ag(c):
                        c.raw_args[4][:2] = [11.0, 12.0][:len(c.raw_args[4][:2])]
                        c.raw_args[5][0] = min(2, len(c.raw_args[4]))
                        return 0
                    rec = Recorder({'aggregate': ag})
                    with patched_module(D, 'c_hydrodiy_data', rec):
                        res = D.aggregate(idx, x, op, maxnan)
                    c = rec.calls[-1]
                    t2 = dict(tag, operator=op)
                    out.append(('aggregate-kernel-gets-the-data', int(c.args[0]) == op and int(c.args[1]) == maxnan and c.args[2].dtype == np.int32
                                and list(c.args[2]) == list(np.asarray(idx0)) and c.args[3].dtype == np.float64
                                and np.array_equal(c.args[3], x0.astype(float), equal_nan=True) and len(c.args[4]) == n
                                and c.args[5].dtype == np.int32 and list(c.args[5]) == [0], t2))
                    out.append(('aggregate-returns-kernel-output-up-to-iend', list(res) == [11.0, 12.0][:min(2, n)], t2))
                    out.append(('aggregate-arguments-untouched', bool(np.array_equal(x, x0, equal_nan=True)) and np.array_equal(np.asarray(idx), idx0), t2))
            for name, call in (('aggregate', lambda: D.aggregate(idx, x, 0, 0)), ('flathomogen', lambda: D.flathomogen(idx, x, 0))):
                rec = Recorder({name: lambda c: 1})
                raised = False
                with patched_module(D, 'c_hydrodiy_data', rec):
                    try:
                        call()
                    except ValueError:
                        raised = True
                out.append(('%s-error-code-raises' % name, raised, dict(n=n)))
    return out


CONTRACTS = [wrapper_buffers]


def contracts_part(tier, seed, workdir):
    from engine.contracts import run_contracts
    return run_contracts('C08', 'harness.C08', CONTRACTS, tier)


FAMILIES = [Aggregate(), FlatHomogen()]
PARTS = [contracts_part]

META = dict(
    explanation='bounded symbolic execution of the LLVM IR of c_aggregate / c_flathomogen (clang -O0 from the current tree) with '
                'symbolic index, values (finite or NaN) and maxnan; every feasible path is checked against a group-wise reference '
                'written from the property statement; candidates are replayed on the natively compiled kernel',
    bounds=['nval 1..4 (quick) / 1..6 (thorough), operators 0..3, maxnan in [-2, nval+1], index values over the whole int32 range, '
            'values any real or NaN (infinities not modelled)'],
    outside=['monthly2daily (pandas resampling, np.interp, polyval): not encodable', 'nval beyond the bound', 'float rounding (exact reals)'],
    assumptions=['doubles are modelled as exact reals + NaN flag (rounding outside the claim)',
                 'wrapper contract: outputs = 0.*inputs, iend = [0], lengths equal (c_hydrodiy_data.pyx asserts)'],
    stubs=[],
)
