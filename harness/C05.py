"""C05 — native kernels never touch memory outside their buffers (engine A: automatic memory / UB obligations on every instruction).

Each family runs one kernel under the precondition of its Cython + Python wrappers (buffer lengths tied together as the wrappers
allocate them) with symbolic contents, scalar options at and beyond their documented ranges, NaN / infinite / huge values; the
obligations (in-bounds load/store, divisor != 0, no signed overflow, float->int conversion in range, ...) are emitted by the
interpreter itself.  A satisfiable obligation is replayed on the natively compiled kernel under AddressSanitizer + UBSan."""
import z3
from engine.llir.harness import Family, Scalar, Buf, KnownPred
from engine.ops import *
from harness.gridref import FLOWDIRCODE, code_domain

I32 = (-2 ** 31, 2 ** 31 - 1)
BIG = 1e300


def vals(S, name, n, nan=True, inf=False, lo=-BIG, hi=BIG):
    return [S.real('%s%d' % (name, i), lo, hi, nan=nan, inf=inf) for i in range(n)]


class Mem(Family):
    prop = 'C05'
    memory = True
    validate_paths = 4
    time_budget = {'quick': 60, 'thorough': 600}
    lengths_q = (0, 1, 2, 3)
    lengths_t = (0, 1, 2, 3, 4)

    def lengths(self, tier):
        return self.lengths_q if tier == 'quick' else self.lengths_t


# ------------------------------------------------------------------------------------------------ data package

class Aggregate(Mem):
    name, pkg, kernel, srcfile = 'mem:aggregate', 'data', 'c_aggregate', 'data/c_dutils.c'

    def instances(self, tier):
        return [dict(nval=n, op=op) for n in self.lengths(tier) for op in (0, 1, 2, 3)]

    def inputs(self, inst, S):
        n = inst['nval']
        return dict(maxnan=S.int('maxnan', *I32), idx=[S.int('idx%d' % i, *I32) for i in range(n)], x=vals(S, 'x', n))

    def args(self, inst, I):
        n = inst['nval']
        return [Scalar('i32', n), Scalar('i32', inst['op']), Scalar('i32', I['maxnan']), Buf('aggindex', 'i32', I['idx']),
                Buf('inputs', 'double', I['x']), Buf('outputs', 'double', [0.0] * n, out=True), Buf('iend', 'i32', [0], out=True)]



class FlatHomogen(Mem):
    name, pkg, kernel, srcfile = 'mem:flathomogen', 'data', 'c_flathomogen', 'data/c_dutils.c'

    def instances(self, tier):
        return [dict(nval=n) for n in self.lengths(tier)]

    def inputs(self, inst, S):
        n = inst['nval']
        return dict(maxnan=S.int('maxnan', *I32), idx=[S.int('idx%d' % i, *I32) for i in range(n)], x=vals(S, 'x', n))

    def args(self, inst, I):
        n = inst['nval']
        return [Scalar('i32', n), Scalar('i32', I['maxnan']), Buf('aggindex', 'i32', I['idx']), Buf('inputs', 'double', I['x']),
                Buf('outputs', 'double', [0.0] * n, out=True)]



class IsLin(Mem):
    name, pkg, kernel, srcfile = 'mem:islin', 'data', 'c_islin', 'data/c_qualitycontrol.c'

    def instances(self, tier):
        return [dict(nval=n) for n in self.lengths(tier) + (5,)]

    def inputs(self, inst, S):
        # qualitycontrol.islinear: npoints >= 1, tol >= 1e-10
        return dict(x=vals(S, 'x', inst['nval']), thresh=S.real('thresh', nan=True), tol=S.real('tol', 1e-10, BIG), npoints=S.int('npoints', 1, I32[1]))

    def args(self, inst, I):
        n = inst['nval']
        return [Scalar('i32', n), Scalar('double', I['thresh']), Scalar('double', I['tol']), Scalar('i32', I['npoints']),
                Buf('data', 'double', I['x']), Buf('islin', 'i32', [0] * n, out=True)]



class Var2h(Mem):
    name, pkg, kernel, srcfile = 'mem:var2h', 'data', 'c_var2h', 'data/c_var2h.c'

    def instances(self, tier):
        return [dict(nobs=n, nvalh=h, period=p, rainfall=r) for n in (1, 2, 3) for h in (0, 1, 2, 3) for p in (1800, 3600) for r in (0, 1)
                if (tier == 'thorough' or (r == 0 or n == 2))]

    def inputs(self, inst, S):
        n = inst['nobs']
        # dutils.var2h: integer seconds from the index (any order is possible for a user-supplied index), hstartsec = first whole hour
        # after the first stamp, nvalh = int(span / period), maxgapsec >= 3600
        t0 = S.int('t0', 0, 3599)
        ts = [t0] + [S.int('t%d' % k, -10 ** 9, 10 ** 9) for k in range(1, n)]
        span = ts[-1] - t0
        P = inst['period']
        S.assume(z3.And(span >= inst['nvalh'] * P, span < (inst['nvalh'] + 1) * P))
        return dict(ts=ts, v=vals(S, 'v', n), maxgap=S.int('maxgap', 3600, I32[1]))

    def args(self, inst, I):
        return [Scalar('i32', inst['nobs']), Scalar('i32', inst['nvalh']), Scalar('i32', inst['period']), Scalar('i32', inst['rainfall']),
                Scalar('i32', 0), Scalar('i32', I['maxgap']), Buf('varsec', 'i64', I['ts']), Buf('varvalues', 'double', I['v']),
                Scalar('i64', 3600), Buf('hvalues', 'double', [float('nan')] * inst['nvalh'], out=True)]



class Eckhardt(Mem):
    name, pkg, kernel, srcfile = 'mem:eckhardt', 'data', 'c_eckhardt', 'data/c_baseflow.c'

    def instances(self, tier):
        return [dict(nval=n) for n in self.lengths(tier)]

    def inputs(self, inst, S):
        return dict(x=vals(S, 'q', inst['nval']), tt=S.int('timestep_type', -1, 2), thresh=S.real('thresh', nan=True), tau=S.real('tau', nan=True),
                    bfi=S.real('bfi', nan=True))

    def args(self, inst, I):
        n = inst['nval']
        return [Scalar('i32', n), Scalar('i32', I['tt']), Scalar('double', I['thresh']), Scalar('double', I['tau']), Scalar('double', I['bfi']),
                Buf('flow', 'double', I['x']), Buf('bflow', 'double', [0.0] * n, out=True)]



class DateFn(Mem):
    """the c-module date helpers"""
    pkg, srcfile = 'data', 'data/c_dateutils.c'
    validate_paths = 2

    def __init__(self, kernel):
        self.kernel = kernel
        self.name = 'mem:' + kernel

    def instances(self, tier):
        return [dict()]

    def inputs(self, inst, S):
        k = self.kernel
        if k == 'c_dateutils_getdate':
            return dict(day=S.real('day', nan=True, inf=True))
        if k in ('c_dateutils_add1month', 'c_dateutils_add1day'):
            # years within +-1e6 (year INT_MAX + 1 overflows, which is outside any calendar use); month / day unconstrained
            return dict(d=[S.int('d0', -10 ** 6, 10 ** 6)] + [S.int('d%d' % i, *I32) for i in (1, 2)])
        if k == 'c_dateutils_comparedates':
            return dict(d=[S.int('d%d' % i, *I32) for i in range(3)], e=[S.int('e%d' % i, *I32) for i in range(3)])
        return dict(a=S.int('a', *I32), b=S.int('b', *I32))

    def args(self, inst, I):
        k = self.kernel
        if k == 'c_dateutils_getdate':
            return [Scalar('double', I['day']), Buf('date', 'i32', [0, 0, 0], out=True)]
        if k in ('c_dateutils_add1month', 'c_dateutils_add1day'):
            return [Buf('date', 'i32', I['d'], out=True)]
        if k == 'c_dateutils_comparedates':
            return [Buf('date1', 'i32', I['d']), Buf('date2', 'i32', I['e'])]
        if k == 'c_dateutils_isleapyear':
            return [Scalar('i32', I['a'])]
        return [Scalar('i32', I['a']), Scalar('i32', I['b'])]

    @property
    def known(self):
        if self.kernel != 'c_dateutils_getdate':
            return ()
        big = 2.0 ** 31 - 1
        return (KnownPred('C05-getdate-out-of-range', ('*',),
                          lambda inst, I: b_or(fisnan(I['day']), b_not(fisfinite(I['day'])), fge(fabs_(I['day']), big)), ''),)


class Combi(Mem):
    name, pkg, kernel, srcfile = 'mem:combi', 'data', 'c_combi', 'data/c_dutils.c'
    time_budget = {'quick': 60, 'thorough': 300}

    def instances(self, tier):
        return [dict()]

    def inputs(self, inst, S):
        return dict(n=S.int('n', -5, 40), k=S.int('k', -5, 40))

    def args(self, inst, I):
        return [Scalar('i32', I['n']), Scalar('i32', I['k'])]


# ------------------------------------------------------------------------------------------------ stat package

class Crps(Mem):
    name, pkg, kernel, srcfile = 'mem:crps', 'stat', 'c_crps', 'stat/c_crps.c'

    def instances(self, tier):
        # metrics.crps: at least one forecast and at least one member reach the kernel (a zero-member ensemble is rejected with
        # 'No valid data' before the call: validated by the wrapper-contract scenario below)
        return [dict(nval=n, ncol=m) for n in (1, 2) for m in (1, 2)] + ([dict(nval=3, ncol=2)] if tier == 'thorough' else [])

    def inputs(self, inst, S):
        n, m = inst['nval'], inst['ncol']
        return dict(obs=vals(S, 'y', n, nan=False, inf=True), ens=vals(S, 'x', n * m, nan=True, inf=True))

    def args(self, inst, I):
        n, m = inst['nval'], inst['ncol']
        return [Scalar('i32', n), Scalar('i32', m), Scalar('i32', 0), Scalar('i32', 0), Buf('obs', 'double', I['obs']), Buf('sim', 'double', I['ens']),
                Buf('weights', 'double', [0.0] * n), Buf('table', 'double', [0.0] * (7 * (m + 1)), out=True), Buf('decompos', 'double', [0.0] * 5, out=True)]



class EnsRank(Mem):
    name, pkg, kernel, srcfile = 'mem:ensrank', 'stat', 'c_ensrank', 'stat/c_dscore.c'

    def instances(self, tier):
        return [dict(nval=n, ncol=m) for n in (0, 1, 2) for m in (0, 1, 2)] + ([dict(nval=3, ncol=2), dict(nval=2, ncol=3)] if tier == 'thorough' else [])

    def inputs(self, inst, S):
        return dict(sim=vals(S, 's', inst['nval'] * inst['ncol'], nan=True, inf=False, lo=-1e6, hi=1e6), eps=S.real('eps', nan=True))

    def args(self, inst, I):
        n, m = inst['nval'], inst['ncol']
        return [Scalar('double', I['eps']), Scalar('i32', n), Scalar('i32', m), Buf('sim', 'double', I['sim']),
                Buf('fmat', 'double', [0.0] * (n * n), out=True), Buf('ranks', 'double', [0.0] * n, out=True)]


class ArModel(Mem):
    pkg, srcfile = 'stat', 'stat/c_armodels.c'

    def __init__(self, kernel):
        self.kernel = kernel
        self.name = 'mem:' + kernel

    def instances(self, tier):
        return [dict(order=p, nval=n) for p in (0, 1, 2, 10, 11, 12) for n in (0, 1, 3)]

    def inputs(self, inst, S):
        return dict(phi=vals(S, 'phi', inst['order'], inf=False), mean=S.real('mean', nan=True), ini=S.real('ini', nan=True),
                    x=vals(S, 'x', inst['nval'], inf=False))

    def args(self, inst, I):
        return [Scalar('i32', inst['nval']), Scalar('i32', inst['order']), Scalar('double', I['mean']), Scalar('double', I['ini']),
                Buf('params', 'double', I['phi']), Buf('series', 'double', I['x']), Buf('out', 'double', [0.0] * inst['nval'], out=True)]


class Pareto(Mem):
    name, pkg, kernel, srcfile = 'mem:paretofront', 'stat', 'c_paretofront', 'stat/c_paretofront.c'

    def instances(self, tier):
        return [dict(n=n, m=m) for n in (0, 1, 2, 3) for m in (0, 1, 2)]

    def inputs(self, inst, S):
        return dict(d=vals(S, 'd', inst['n'] * inst['m']), orient=S.int('orient', *I32))

    def args(self, inst, I):
        return [Scalar('i32', inst['n']), Scalar('i32', inst['m']), Scalar('i32', I['orient']), Buf('data', 'double', I['d']),
                Buf('isdominated', 'i32', [0] * inst['n'], out=True)]


class AdTest(Mem):
    name, pkg, kernel, srcfile = 'mem:ad_test', 'stat', 'c_ad_test', 'stat/c_andersondarling.c'
    validate_paths = 0

    def instances(self, tier):
        return [dict(n=n) for n in (0, 1, 2, 3)]

    def inputs(self, inst, S):
        return dict(x=vals(S, 'u', inst['n'], inf=False, lo=-3, hi=3))

    def execute(self, ex, path, inst, I, srcfile):
        from engine.llir.harness import sym_kernel
        from engine.llir.xr import XR
        def AD(path_, fn, ins, a):
            path_.fresh += 1
            return XR(z3.Real('ADp!%d' % path_.fresh))
        ex.stubs = {'AD': AD}
        try:
            return sym_kernel(ex, path, 'c_ad_test', self.args(inst, I), srcfile)
        finally:
            ex.stubs = {}

    def args(self, inst, I):
        return [Scalar('i32', inst['n']), Buf('unifdata', 'double', I['x']), Buf('outputs', 'double', [0.0, 0.0], out=True)]


# ------------------------------------------------------------------------------------------------ gis package

def grid_scalars(S, big=False):
    return dict(xll=S.real('xll', nan=True, inf=True), yll=S.real('yll', nan=True, inf=True), csz=S.real('csz', nan=True, inf=True))


class Coord2Cell(Mem):
    name, pkg, kernel, srcfile = 'mem:coord2cell', 'gis', 'c_coord2cell', 'gis/c_grid.c'

    def instances(self, tier):
        return [dict(nval=n, nrows=r, ncols=c) for n in (0, 1, 2) for r, c in ((1, 1), (2, 3))]

    def inputs(self, inst, S):
        I = grid_scalars(S)
        I['xy'] = vals(S, 'p', 2 * inst['nval'], inf=True)
        return I

    def args(self, inst, I):
        return [Scalar('i64', inst['nrows']), Scalar('i64', inst['ncols']), Scalar('double', I['xll']), Scalar('double', I['yll']), Scalar('double', I['csz']),
                Scalar('i64', inst['nval']), Buf('xycoords', 'double', I['xy']), Buf('idxcell', 'i64', [0] * inst['nval'], out=True)]


class CellFns(Mem):
    pkg, srcfile = 'gis', 'gis/c_grid.c'

    def __init__(self, kernel):
        self.kernel = kernel
        self.name = 'mem:' + kernel

    def instances(self, tier):
        return [dict(nval=n, nrows=r, ncols=c) for n in (0, 1, 2) for r, c in ((1, 1), (2, 3))]

    def inputs(self, inst, S):
        I = grid_scalars(S)
        I['cells'] = [S.int('c%d' % i, -2 ** 62, 2 ** 62) for i in range(max(1, inst['nval']))]
        return I

    def args(self, inst, I):
        n, r, c = inst['nval'], inst['nrows'], inst['ncols']
        if self.kernel == 'c_cell2coord':
            return [Scalar('i64', r), Scalar('i64', c), Scalar('double', I['xll']), Scalar('double', I['yll']), Scalar('double', I['csz']),
                    Scalar('i64', n), Buf('idxcell', 'i64', I['cells'][:n]), Buf('xycoords', 'double', [0.0] * (2 * n), out=True)]
        if self.kernel == 'c_cell2rowcol':
            return [Scalar('i64', r), Scalar('i64', c), Scalar('i64', n), Buf('idxcell', 'i64', I['cells'][:n]), Buf('rowcols', 'i64', [0] * (2 * n), out=True)]
        return [Scalar('i64', r), Scalar('i64', c), Scalar('i64', I['cells'][0]), Buf('neighbours', 'i64', [0] * 9, out=True)]


def sym_flow(S, n, free=False):
    codes = [S.int('fd%d' % i, *( (-2 ** 62, 2 ** 62) if free else (None, None))) for i in range(n)]
    if not free:
        for f in codes:
            S.assume(code_domain(f))
    return codes


class UpDown(Mem):
    pkg, srcfile = 'gis', 'gis/c_grid.c'

    def __init__(self, kernel):
        self.kernel = kernel
        self.name = 'mem:' + kernel

    def instances(self, tier):
        return [dict(nrows=r, ncols=c, nval=n) for r, c in ((1, 1), (1, 2)) + (((2, 2),) if tier == 'thorough' else ()) for n in (0, 1, 2)]

    def inputs(self, inst, S):
        n = inst['nrows'] * inst['ncols']
        # any int64 content of the flow grid (Catchment converts whatever the user grid holds to int64)
        return dict(codes=sym_flow(S, n, free=True), cells=[S.int('c%d' % i, -2 ** 62, 2 ** 62) for i in range(inst['nval'])])

    def args(self, inst, I):
        nv = inst['nval']
        w = 9 if self.kernel == 'c_upstream' else 1
        return [Scalar('i64', inst['nrows']), Scalar('i64', inst['ncols']), Buf('flowdircode', 'i64', FLOWDIRCODE), Buf('flowdir', 'i64', I['codes']),
                Scalar('i64', nv), Buf('idxin', 'i64', I['cells']), Buf('idxout', 'i64', [0] * (w * nv), out=True)]


class Accumulate(Mem):
    name, pkg, kernel, srcfile = 'mem:accumulate', 'gis', 'c_accumulate', 'gis/c_grid.c'

    def instances(self, tier):
        return [dict(nrows=r, ncols=c) for r, c in ((1, 1), (1, 2), (2, 1), (1, 3))] + ([dict(nrows=2, ncols=2)] if tier == 'thorough' else [])

    def inputs(self, inst, S):
        n = inst['nrows'] * inst['ncols']
        return dict(codes=sym_flow(S, n), field=vals(S, 'v', n, inf=False), nodata=S.real('nodata', nan=True),
                    nprint=S.int('nprint', -3, 1000), limit=S.int('limit', -2, 10))

    def args(self, inst, I):
        return [Scalar('i64', inst['nrows']), Scalar('i64', inst['ncols']), Scalar('i64', I['nprint']), Scalar('i64', I['limit']),
                Scalar('double', I['nodata']), Buf('flowdircode', 'i64', FLOWDIRCODE), Buf('flowdir', 'i64', I['codes']),
                Buf('to_accumulate', 'double', I['field']), Buf('accumulation', 'double', I['field'], out=True)]



class Slope(Mem):
    name, pkg, kernel, srcfile = 'mem:slope', 'gis', 'c_slope', 'gis/c_grid.c'

    def instances(self, tier):
        return [dict(nrows=r, ncols=c) for r, c in ((1, 1), (1, 2), (2, 2))]

    def inputs(self, inst, S):
        n = inst['nrows'] * inst['ncols']
        return dict(codes=sym_flow(S, n), alt=vals(S, 'z', n, inf=False), csz=S.real('csz', nan=True), nprint=S.int('nprint', -3, 1000))

    def args(self, inst, I):
        n = inst['nrows'] * inst['ncols']
        return [Scalar('i64', inst['nrows']), Scalar('i64', inst['ncols']), Scalar('i64', I['nprint']), Scalar('double', I['csz']),
                Buf('flowdircode', 'i64', FLOWDIRCODE), Buf('flowdir', 'i64', I['codes']), Buf('altitude', 'double', I['alt']),
                Buf('slopeval', 'double', [0.0] * n, out=True)]



class Voronoi(Mem):
    name, pkg, kernel, srcfile = 'mem:voronoi', 'gis', 'c_voronoi', 'gis/c_grid.c'
    sqrt_mode = 'monotone'

    def instances(self, tier):
        cellsets = {0: [[]], 1: [[0], [3]], 2: [[0, 3], [2, 2]], 3: [[0, 1, 3]]}
        return [dict(ncells=c, npoints=p, cells=cs) for c in (0, 1, 2, 3) for p in (1, 2) for cs in cellsets[c]]

    def inputs(self, inst, S):
        # catchment cells come from delineate_area: valid cells of the 2x2 grid (listed tuples)
        return dict(cells=list(inst['cells']), pts=vals(S, 'p', 2 * inst['npoints'], nan=False, inf=False, lo=-1e3, hi=1e3),
                    xll=S.real('xll', -1e3, 1e3), yll=S.real('yll', -1e3, 1e3), csz=1.0)

    def args(self, inst, I):
        return [Scalar('i64', 2), Scalar('i64', 2), Scalar('double', I['xll']), Scalar('double', I['yll']), Scalar('double', I['csz']),
                Scalar('i64', inst['ncells']), Buf('idxcells_area', 'i64', I['cells']), Scalar('i64', inst['npoints']),
                Buf('xypoints', 'double', I['pts']), Buf('weights', 'double', [0.0] * inst['npoints'], out=True)]

    known = (KnownPred('C05-voronoi-more-cells-than-points', ('*',), lambda inst, I: inst['ncells'] > inst['npoints'], ''),)


class Intersect(Mem):
    name, pkg, kernel, srcfile = 'mem:intersect', 'gis', 'c_intersect', 'gis/c_grid.c'

    def instances(self, tier):
        return [dict(nval=n, nrows=r, ncols=c) for n in (0, 1, 2, 3) for r, c in ((1, 1), (1, 2))]

    def inputs(self, inst, S):
        I = grid_scalars(S)
        I['xy'] = vals(S, 'p', 2 * inst['nval'])
        I['csz_area'] = S.real('csza', nan=True, inf=True)
        return I

    def args(self, inst, I):
        ng = inst['nrows'] * inst['ncols']
        return [Scalar('i64', inst['nrows']), Scalar('i64', inst['ncols']), Scalar('double', I['xll']), Scalar('double', I['yll']), Scalar('double', I['csz']),
                Scalar('double', I['csz_area']), Scalar('i64', inst['nval']), Buf('xy_area', 'double', I['xy']), Scalar('i64', ng),
                Buf('npoints', 'i64', [0], out=True), Buf('idxcells', 'i64', [0] * ng, out=True), Buf('weights', 'double', [0.0] * ng, out=True)]


class DelineateArea(Mem):
    name, pkg, kernel, srcfile = 'mem:delineate_area', 'gis', 'c_delineate_area', 'gis/c_catchment.c'

    def instances(self, tier):
        out = []
        for r, c in ((1, 1), (1, 2), (1, 3)) + (((2, 2),) if tier == 'thorough' else ()):
            for nval in (0, 1, 2, 3, 5):
                for ninl in (0, 1):
                    if ninl and tier == 'quick' and r * c > 2:
                        continue
                    for outlet in range(-1, r * c + 1):
                        for inl in ([[]] if not ninl else [[0], [r * c - 1], [r * c]]):
                            out.append(dict(nrows=r, ncols=c, nval=nval, ninlets=ninl, outlet=outlet, inlets=inl))
        return out

    def cost(self, inst):
        return 6 ** (inst['nrows'] * inst['ncols'])

    def inputs(self, inst, S):
        n = inst['nrows'] * inst['ncols']
        return dict(codes=sym_flow(S, n), outlet=inst['outlet'], inlets=list(inst['inlets']))

    def args(self, inst, I):
        nv = inst['nval']
        return [Scalar('i64', inst['nrows']), Scalar('i64', inst['ncols']), Buf('flowdircode', 'i64', FLOWDIRCODE), Buf('flowdir', 'i64', I['codes']),
                Scalar('i64', I['outlet']), Scalar('i64', inst['ninlets']), Buf('idxinlets', 'i64', I['inlets']), Scalar('i64', nv),
                Buf('idxcells_area', 'i64', [-1] * nv, out=True), Buf('buffer1', 'i64', [-1] * nv, out=True), Buf('buffer2', 'i64', [-1] * nv, out=True)]


class River(Mem):
    name, pkg, kernel, srcfile = 'mem:delineate_river', 'gis', 'c_delineate_river', 'gis/c_catchment.c'

    def instances(self, tier):
        return [dict(nrows=r, ncols=c, nval=nv, start=st) for r, c in ((1, 1), (1, 2)) + (((2, 2),) if tier == 'thorough' else ()) for nv in (0, 1, 2, 4)
                for st in range(-1, r * c + 1)]

    def inputs(self, inst, S):
        n = inst['nrows'] * inst['ncols']
        I = dict(xll=S.real('xll', -1e6, 1e6), yll=S.real('yll', -1e6, 1e6), csz=S.real('csz', 1e-6, 1e6))
        I.update(codes=sym_flow(S, n), start=inst['start'])
        return I

    def args(self, inst, I):
        nv = inst['nval']
        return [Scalar('i64', inst['nrows']), Scalar('i64', inst['ncols']), Scalar('double', I['xll']), Scalar('double', I['yll']), Scalar('double', I['csz']),
                Buf('flowdircode', 'i64', FLOWDIRCODE), Buf('flowdir', 'i64', I['codes']), Scalar('i64', I['start']), Scalar('i64', nv),
                Buf('npoints', 'i64', [0], out=True), Buf('idxcells', 'i64', [-1] * nv, out=True), Buf('data', 'double', [0.0] * (5 * nv), out=True)]


class FlowPath(Mem):
    name, pkg, kernel, srcfile = 'mem:flowpathlengths', 'gis', 'c_delineate_flowpathlengths_in_catchment', 'gis/c_catchment.c'

    def instances(self, tier):
        return [dict(nrows=r, ncols=c, nval=nv) for r, c in ((1, 1), (1, 2)) + (((2, 2),) if tier == 'thorough' else ()) for nv in (0, 1, 2)]

    def inputs(self, inst, S):
        n = inst['nrows'] * inst['ncols']
        # the area cells come from delineate_area (valid cells); the outlet is whatever the catchment stores
        return dict(codes=sym_flow(S, n), area=[(i * 3) % n for i in range(inst['nval'])], outlet=S.int('outlet', -2, n + 1))

    def args(self, inst, I):
        nv = inst['nval']
        return [Scalar('i64', inst['nrows']), Scalar('i64', inst['ncols']), Buf('flowdircode', 'i64', FLOWDIRCODE), Buf('flowdir', 'i64', I['codes']),
                Scalar('i64', nv), Buf('idxcells_area', 'i64', I['area']), Scalar('i64', I['outlet']), Buf('flowpathlengths', 'double', [0.0] * (3 * nv), out=True)]


class Inside(Mem):
    name, pkg, kernel, srcfile = 'mem:inside', 'gis', 'c_inside', 'gis/c_points_inside_polygon.c'

    def instances(self, tier):
        return [dict(npts=p, nvert=v) for p in (0, 1) + ((2,) if tier == 'thorough' else ()) for v in (1, 2) + ((3,) if tier == 'thorough' else ())]

    def inputs(self, inst, S):
        return dict(pts=vals(S, 'p', 2 * inst['npts']), poly=vals(S, 'v', 2 * inst['nvert']), atol=S.real('atol', nan=True), nprint=S.int('nprint', *I32),
                    lim=vals(S, 'l', 4))

    def args(self, inst, I):
        return [Scalar('i32', I['nprint']), Scalar('i32', inst['npts']), Buf('points', 'double', I['pts']), Scalar('i32', inst['nvert']),
                Buf('polygon', 'double', I['poly']), Scalar('double', I['atol']), Buf('xlim', 'double', I['lim'][:2]), Buf('ylim', 'double', I['lim'][2:]),
                Buf('inside', 'i32', [0] * inst['npts'], out=True)]


class DelineateBoundary(Mem):
    name, pkg, kernel, srcfile = 'mem:delineate_boundary', 'gis', 'c_delineate_boundary', 'gis/c_catchment.c'

    def instances(self, tier):
        import itertools
        out = []
        shapes = ((1, 1), (1, 3), (2, 2)) if tier == 'quick' else ((1, 1), (1, 3), (2, 2), (3, 3), (2, 3))
        for r, c in shapes:
            n = r * c
            for k in range(1, min(n, 4) + 1):
                combos = list(itertools.combinations(range(n), k))
                if len(combos) > 12:
                    combos = combos[::max(1, len(combos) // 12)]
                for cells in combos:
                    out.append(dict(nrows=r, ncols=c, cells=list(cells)))
        return out

    def inputs(self, inst, S):
        # Catchment.delineate_boundary: the (filled) area cells, a mask that is 1 exactly on them, buffers of the same length
        return dict()

    def args(self, inst, I):
        n = inst['nrows'] * inst['ncols']
        cells = inst['cells']
        k = len(cells)
        # the area vector comes from delineate_area in discovery order: any order is possible, take the reversed one
        return [Scalar('i64', inst['nrows']), Scalar('i64', inst['ncols']), Scalar('i64', k), Buf('idxcells_area', 'i64', cells[::-1], out=True),
                Buf('buffer', 'i64', [-1] * k, out=True), Buf('mask', 'i64', [1 if i in cells else 0 for i in range(n)]),
                Buf('idxcells_boundary', 'i64', [-1] * k, out=True)]


class ExcludeZeroArea(Mem):
    name, pkg, kernel, srcfile = 'mem:exclude_zero_area_boundary', 'gis', 'c_exclude_zero_area_boundary', 'gis/c_catchment.c'

    def instances(self, tier):
        return [dict(nval=n) for n in (0, 1, 2, 3, 4)]

    def inputs(self, inst, S):
        return dict(xy=vals(S, 'p', 2 * inst['nval']), deteps=S.real('deteps', nan=True))

    def args(self, inst, I):
        return [Scalar('i64', inst['nval']), Scalar('double', I['deteps']), Buf('xycoords', 'double', I['xy']), Buf('idxok', 'i64', [0] * inst['nval'], out=True)]


class Slice(Mem):
    name, pkg, kernel, srcfile = 'mem:slice', 'gis', 'c_slice', 'gis/c_grid.c'

    def instances(self, tier):
        return [dict(nrows=r, ncols=c, nval=n) for r, c in ((1, 1), (2, 2), (2, 3)) for n in (0, 1, 2) if not (tier == 'quick' and n == 2 and r * c > 4)]

    def inputs(self, inst, S):
        n = inst['nrows'] * inst['ncols']
        return dict(data=vals(S, 'z', n, inf=False), xy=vals(S, 'p', 2 * inst['nval'], inf=False), xll=S.real('xll', -1e3, 1e3), yll=S.real('yll', -1e3, 1e3))

    def args(self, inst, I):
        return [Scalar('i64', inst['nrows']), Scalar('i64', inst['ncols']), Scalar('double', I['xll']), Scalar('double', I['yll']), Scalar('double', 1.0),
                Buf('data', 'double', I['data']), Scalar('i64', inst['nval']), Buf('xyslice', 'double', I['xy']), Buf('zslice', 'double', [0.0] * inst['nval'], out=True)]


class OlsLeverage(Mem):
    name, pkg, kernel, srcfile = 'mem:olsleverage', 'stat', 'c_olsleverage', 'stat/c_olsleverage.c'

    def instances(self, tier):
        return [dict(n=n, p=p) for n in (0, 1, 2) for p in (0, 1, 2)]

    def inputs(self, inst, S):
        return dict(X=vals(S, 'x', inst['n'] * inst['p'], inf=False), M=vals(S, 'm', inst['p'] * inst['p'], inf=False))

    def args(self, inst, I):
        return [Scalar('i32', inst['n']), Scalar('i32', inst['p']), Buf('predictors', 'double', I['X']), Buf('tXXinv', 'double', I['M']),
                Buf('leverage', 'double', [0.0] * inst['n'], out=True)]


FAMILIES = [DelineateBoundary(), ExcludeZeroArea(), Slice(), OlsLeverage(), Aggregate(), FlatHomogen(), IsLin(), Var2h(), Eckhardt(), Combi(),
            DateFn('c_dateutils_getdate'), DateFn('c_dateutils_add1month'), DateFn('c_dateutils_add1day'), DateFn('c_dateutils_comparedates'),
            DateFn('c_dateutils_isleapyear'), DateFn('c_dateutils_daysinmonth'), DateFn('c_dateutils_dayofyear'),
            Crps(), EnsRank(), ArModel('c_armodel_sim'), ArModel('c_armodel_residual'), Pareto(), AdTest(),
            Coord2Cell(), CellFns('c_cell2coord'), CellFns('c_cell2rowcol'), CellFns('c_neighbours'), UpDown('c_upstream'), UpDown('c_downstream'),
            Accumulate(), Slope(), Voronoi(), Intersect(), DelineateArea(), River(), FlowPath(), Inside()]


def wrapper_guards(tier):
    """inputs the kernels are not prepared for are stopped by the Python wrappers before any kernel call (these guards are part of the
    precondition the kernel families assume): zero-member ensembles in crps, npoints < 1 / tol < 1e-10 in islinear, mismatched lengths"""
    import numpy as np
    from hydrodiy.stat import metrics as M
    from hydrodiy.data import qualitycontrol as Q, dutils as D
    from engine.contracts import Recorder, patched_module
    out = []

    def rejected(pymod, attr, fn, *a, **k):
        rec = Recorder()
        raised = False
        with patched_module(pymod, attr, rec):
            try:
                fn(*a, **k)
            except (ValueError, AssertionError, TypeError, IndexError):
                raised = True
        return raised and not rec.calls
    out.append(('crps-zero-member-ensemble-rejected-before-kernel', rejected(M, 'c_hydrodiy_stat', M.crps, np.array([1.0, 2.0]), np.zeros((2, 0))), {}))
    out.append(('crps-all-missing-observations-rejected', rejected(M, 'c_hydrodiy_stat', M.crps, np.array([np.nan, np.nan]), np.ones((2, 2))), {}))
    out.append(('islinear-npoints<1-rejected', rejected(Q, 'c_hydrodiy_data', Q.islinear, np.arange(5.0), npoints=0), {}))
    out.append(('islinear-tol-too-small-rejected', rejected(Q, 'c_hydrodiy_data', Q.islinear, np.arange(5.0), tol=1e-12), {}))
    out.append(('aggregate-length-mismatch-rejected', rejected(D, 'c_hydrodiy_data', D.aggregate, np.zeros(3), np.zeros(2)), {}))
    out.append(('flathomogen-length-mismatch-rejected', rejected(D, 'c_hydrodiy_data', D.flathomogen, np.zeros(3), np.zeros(2)), {}))
    # buffers allocated from the input lengths
    rec = Recorder()
    with patched_module(D, 'c_hydrodiy_data', rec):
        D.aggregate(np.array([1, 1, 2]), np.array([1.0, np.nan, 3.0]), operator=2, maxnan=1)
    c = rec.calls[-1]
    # output vectors of Catchment.intersect hold one entry per cell of the intersecting grid (c_intersect has no capacity check)
    from hydrodiy.gis import grid as G
    real = G.c_hydrodiy_gis
    fine = G.Grid('fd', 6, 6, cellsize=1.0, dtype=np.int64)
    fine.data = np.full((6, 6), 4, dtype=np.int64)
    for (nr, nc, filled) in ((3, 3, False), (6, 6, True), (2, 5, True)):
        ca = G.Catchment('c', fine)
        ca._idxcells_area = np.array([0, 7, 14], dtype=np.int64)
        ca._idxcells_area_filled = np.array([0, 1, 7, 14], dtype=np.int64)
        coarse = G.Grid('g', nc, nr, cellsize=2.0)
        rec2 = Recorder({'intersect': lambda cc: (cc.raw_args[7].__setitem__(0, 1), 0)[1], 'cell2coord': lambda cc: real.cell2coord(*cc.raw_args),
                         'cell2rowcol': lambda cc: real.cell2rowcol(*cc.raw_args)})
        with patched_module(G, 'c_hydrodiy_gis', rec2):
            try:
                ca.intersect(coarse, filled=filled)
            except Exception:
                pass
        ci = [cc for cc in rec2.calls if cc.name == 'intersect'][0]
        out.append(('intersect-output-vectors-hold-nrows*ncols-entries', len(ci.args[8]) == nr * nc and len(ci.args[9]) == nr * nc and len(ci.args[7]) == 1,
                    dict(nrows=nr, ncols=nc, filled=filled, got=[len(ci.args[8]), len(ci.args[9])])))
    out.append(('aggregate-buffers', len(c.args[2]) == 3 and c.args[2].dtype == np.int32 and len(c.args[4]) == 3 and len(c.args[5]) == 1 and
                int(c.args[0]) == 2 and int(c.args[1]) == 1, {}))
    return out


CONTRACTS = [wrapper_guards]


def contracts_part(tier, seed, workdir):
    from engine.contracts import run_contracts
    return run_contracts('C05', 'harness.C05', CONTRACTS, tier)


PARTS = [contracts_part]

META = dict(
    explanation='every kernel reachable from a public wrapper is executed symbolically under the precondition its Cython and Python wrappers '
                'establish (buffer lengths tied as the wrappers allocate them), with symbolic contents (finite, NaN, +-inf, huge), cell numbers and '
                'scalar options at and beyond their documented ranges; the interpreter emits an obligation at every load/store (object alive, '
                'offset in range), integer division (divisor != 0, no INT_MIN/-1), nsw arithmetic (no signed overflow), float->int conversion '
                '(finite and in range), free; satisfiable obligations are replayed on the natively compiled kernel under AddressSanitizer + UBSan '
                'and only sanitizer-confirmed ones are reported',
    bounds=['array lengths 0..3 (thorough 0..4), grids up to 2x2 (1x3), ensemble sizes 0..2, AR orders 0,1,2,10,11,12, nprint/maxnan/npoints/limits '
            'over ranges around and beyond the documented ones'],
    outside=['lengths beyond the bound', 'allocation failure (malloc assumed non-NULL)', 'the Cython-generated C (trusted: its buffer checks are the '
             'source of the precondition)', 
             'UB that no sanitizer flags (e.g. forming an out-of-bounds pointer that is never dereferenced)'],
    assumptions=['wrapper contracts as read from c_hydrodiy_*.pyx and the Python wrappers; stated per family in harness/C05.py'],
    stubs=['fprintf: no effect', 'malloc/free: fresh object', 'qsort: insertion sort with the real comparator', 'exp/log: uninterpreted', 'AD(): arbitrary value'],
)
