"""CrossHair contracts for C19 (option manager): each function calls the real hydrodiy.io.hyruns code."""
from typing import List
from hydrodiy.io import hyruns


def cartesian_product_and_roundtrip(a: List[int], b: List[int], c: int) -> bool:
    """
    pre: 1 <= len(a) <= 3 and 1 <= len(b) <= 3
    pre: len(set(a)) == len(a) and len(set(b)) == len(b)
    post: _
    """
    opm = hyruns.OptionManager("x", ctx=c)
    opm.from_cartesian_product(u=a, v=b, w=c)
    combos = [(t["u"], t["v"], t["w"]) for t in opm.tasks]
    ok = len(combos) == len(a) * len(b) and len(set(combos)) == len(combos)
    ok = ok and all(x in a and y in b and z == c for x, y, z in combos)
    ok = ok and all((x, y, c) in combos for x in a for y in b)
    ok = ok and all(opm.get_task(i).options == opm.tasks[i] and opm.get_task(i).context == {"ctx": c} for i in range(opm.ntasks))
    opm2 = hyruns.OptionManager.from_dict(opm.to_dict())
    return ok and (opm == opm2) and (opm2 == opm)


def cartesian_product_twin(a: List[int], b: List[int], c: int) -> bool:
    """
    pre: 1 <= len(a) <= 3 and 1 <= len(b) <= 3
    pre: len(set(a)) == len(a) and len(set(b)) == len(b)
    post: not _
    """
    opm = hyruns.OptionManager("x", ctx=c)
    opm.from_cartesian_product(u=a, v=b, w=c)
    return True


def roundtrip_with_renamed_keys(a: List[int], b: int) -> bool:
    """
    pre: 1 <= len(a) <= 3 and len(set(a)) == len(a)
    post: _
    """
    hyruns.set_dict_keyname("context_name", "cfg")
    hyruns.set_dict_keyname("task_options_name", "opts")
    hyruns.set_dict_keyname("manager_options_name", "mopts")
    try:
        opm = hyruns.OptionManager("x", k=b)
        opm.from_cartesian_product(u=a)
        dd = opm.to_dict()
        ok = "cfg" in dd and "mopts" in dd and all("opts" in t and "cfg" in t for t in dd["tasks"])
        opm2 = hyruns.OptionManager.from_dict(dd)
        return ok and opm == opm2 and opm2 == opm and opm2.context == {"k": b}
    finally:
        hyruns.reset_dict_keyname()


def roundtrip_renamed_twin(a: List[int], b: int) -> bool:
    """
    pre: 1 <= len(a) <= 3 and len(set(a)) == len(a)
    post: not _
    """
    return True


def inequality_is_detected(a: List[int], b: List[int]) -> bool:
    """
    pre: 1 <= len(a) <= 2 and 1 <= len(b) <= 2 and a != b
    pre: len(set(a)) == len(a) and len(set(b)) == len(b)
    post: _
    """
    o1 = hyruns.OptionManager("x")
    o1.from_cartesian_product(u=a)
    o2 = hyruns.OptionManager("x")
    o2.from_cartesian_product(u=b)
    return not (o1 == o2)


def inequality_twin(a: List[int], b: List[int]) -> bool:
    """
    pre: 1 <= len(a) <= 2 and 1 <= len(b) <= 2 and a != b
    post: not _
    """
    return True


def find_returns_matching_tasks(a: List[int], b: List[int], x: int) -> bool:
    """
    pre: 1 <= len(a) <= 2 and 1 <= len(b) <= 2
    pre: len(set(a)) == len(a) and len(set(b)) == len(b)
    pre: all(-9 <= v <= 12 for v in a) and -9 <= x <= 12
    post: _
    """
    opm = hyruns.OptionManager("x")
    opm.from_cartesian_product(u=a, v=b)
    got = opm.find(u=x)
    exp = [i for i, t in enumerate(opm.tasks) if t["u"] == x]
    return got == exp


def find_twin(a: List[int], b: List[int], x: int) -> bool:
    """
    pre: 1 <= len(a) <= 2 and 1 <= len(b) <= 2
    pre: all(-9 <= v <= 12 for v in a) and -9 <= x <= 12
    post: not _
    """
    return True


def bare_string_option(s: str, a: List[int]) -> bool:
    """
    pre: 1 <= len(s) <= 3 and all(ch in "abxy019_" for ch in s)
    pre: 1 <= len(a) <= 2 and len(set(a)) == len(a)
    post: _
    """
    opm = hyruns.OptionManager("x")
    opm.from_cartesian_product(model=s, u=a)
    combos = [(t["model"], t["u"]) for t in opm.tasks]
    # a scalar given bare (here a string of up to 3 characters) is ONE value of its option
    return len(combos) == len(a) and all(m == s for m, _ in combos) and sorted(u for _, u in combos) == sorted(a)


def bare_string_twin(s: str, a: List[int]) -> bool:
    """
    pre: 1 <= len(s) <= 3 and all(ch in "abxy019_" for ch in s)
    pre: 1 <= len(a) <= 2 and len(set(a)) == len(a)
    post: not _
    """
    return True


def second_product_replaces_first(a: List[int], b: List[int]) -> bool:
    """
    pre: 1 <= len(a) <= 2 and 1 <= len(b) <= 3
    pre: len(set(a)) == len(a) and len(set(b)) == len(b)
    post: _
    """
    opm = hyruns.OptionManager("x")
    opm.from_cartesian_product(u=a)
    opm.from_cartesian_product(v=b)
    # a second call defines the tasks afresh: only the options of that call, every value once
    fresh = hyruns.OptionManager("x")
    fresh.from_cartesian_product(v=b)
    return opm.ntasks == len(b) and all(set(t.keys()) == {"v"} for t in opm.tasks) and [t["v"] for t in opm.tasks] == list(b) and opm == fresh and fresh == opm


def second_product_twin(a: List[int], b: List[int]) -> bool:
    """
    pre: 1 <= len(a) <= 2 and 1 <= len(b) <= 3
    post: not _
    """
    return True


def roundtrip_keeps_task_order_beyond_ten(a: List[int], n: int) -> bool:
    """
    pre: 11 <= n <= 13 and len(a) == n
    pre: all(a[i] < a[i + 1] for i in range(len(a) - 1))
    post: _
    """
    opm = hyruns.OptionManager("x")
    opm.from_cartesian_product(u=a)
    opm2 = hyruns.OptionManager.from_dict(opm.to_dict())
    return opm2.ntasks == n and [t["u"] for t in opm2.tasks] == list(a) and opm == opm2 and opm2 == opm


def roundtrip_order_twin(a: List[int], n: int) -> bool:
    """
    pre: 11 <= n <= 13 and len(a) == n
    post: not _
    """
    return True


CONTRACTS = [
    dict(name='cartesian_product_and_roundtrip', twin='cartesian_product_twin',
         what='OptionManager.from_cartesian_product enumerates every combination once; to_dict/from_dict equal in both directions'),
    dict(name='roundtrip_with_renamed_keys', twin='roundtrip_renamed_twin', what='dictionary round trip with renamed keys'),
    dict(name='inequality_is_detected', twin='inequality_twin', what='managers with different option lists compare unequal'),
    dict(name='bare_string_option', twin='bare_string_twin', what='a bare string option of 1-3 characters is a single option value'),
    dict(name='second_product_replaces_first', twin='second_product_twin', what='a second from_cartesian_product call on the same manager defines the tasks afresh'),
    dict(name='roundtrip_keeps_task_order_beyond_ten', twin='roundtrip_order_twin', what='dictionary round trip keeps the task order for 11-13 tasks'),
    dict(name='find_returns_matching_tasks', twin='find_twin', what='OptionManager.find returns exactly the tasks whose option equals the value',
         timeout={'quick': 30, 'thorough': 240}),
]
