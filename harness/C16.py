"""C16 — catchment/grid intersection and Voronoi weights conserve area (engine A, XR)."""
from fractions import Fraction
import z3
from engine.llir.harness import Family, Scalar, Buf, sym_kernel, nat_kernel
from engine.ops import *

SRC = 'gis/c_grid.c'


def zfloor(v):
    """floor of a double-domain value as an integer term / python int"""
    import math
    if is_conc(v):
        return math.floor(v)
    return z3.ToInt(lift(v).val)


class Intersect(Family):
    """cell2coord (fine grid) -> c_intersect (coarse grid), composed as Catchment.intersect does"""
    prop = 'C16'
    name = 'intersect'
    pkg = 'gis'
    kernel = 'c_intersect'
    srcfile = SRC
    time_budget = {'quick': 200, 'thorough': 1500}

    def instances(self, tier):
        out = []
        fines = [(2, 2)] if tier == 'quick' else [(2, 2), (3, 3), (2, 3)]
        coarses = [(1, 1), (2, 2), (1, 2)] if tier == 'quick' else [(1, 1), (2, 2), (1, 2), (2, 1)]
        for fr, fc in fines:
            for cr, cc in coarses:
                for ratio in ((1, 2) if tier == 'quick' else (1, 2, 3, 4)):
                    for k in ((1, 2) if tier == 'quick' else (1, 2, 3)):
                        out.append(dict(fr=fr, fc=fc, cr=cr, cc=cc, ratio=ratio, ncells=k))
        return out

    def cost(self, inst):
        return (inst['cr'] * inst['cc'] + 1) ** inst['ncells'] * inst['fr'] * inst['fc']

    def inputs(self, inst, S):
        nf = inst['fr'] * inst['fc']
        cells = [S.int('cell%d' % i, 0, nf - 1) for i in range(inst['ncells'])]
        for i in range(len(cells)):
            for j in range(i + 1, len(cells)):
                S.assume(cells[i] != cells[j])
        return dict(cells=cells, fxll=S.real('fxll', -10, 10), fyll=S.real('fyll', -10, 10),
                    xll=S.real('xll', -20, 20), yll=S.real('yll', -20, 20))

    def _calls(self, inst, I):
        k = inst['ncells']
        a1 = [Scalar('i64', inst['fr']), Scalar('i64', inst['fc']), Scalar('double', I['fxll']), Scalar('double', I['fyll']),
              Scalar('double', 1.0), Scalar('i64', k), Buf('idxcell', 'i64', I['cells']), Buf('xy_area', 'double', [0.0] * (2 * k), out=True)]
        ng = inst['cr'] * inst['cc']

        def a2(xy):
            return [Scalar('i64', inst['cr']), Scalar('i64', inst['cc']), Scalar('double', I['xll']), Scalar('double', I['yll']),
                    Scalar('double', float(inst['ratio'])), Scalar('double', 1.0), Scalar('i64', k), Buf('xy_area', 'double', xy),
                    Scalar('i64', ng), Buf('npoints', 'i64', [0], out=True), Buf('idxcells', 'i64', [0] * ng, out=True),
                    Buf('weights', 'double', [0.0] * ng, out=True)]
        return a1, a2

    def execute(self, ex, path, inst, I, srcfile):
        a1, a2 = self._calls(inst, I)
        O1 = sym_kernel(ex, path, 'c_cell2coord', a1, srcfile)
        O2 = sym_kernel(ex, path, 'c_intersect', a2(O1['xy_area']), srcfile)
        return {'ret': O2['ret'], 'xy': O1['xy_area'], 'npoints': O2['npoints'][0], 'idxcells': O2['idxcells'], 'weights': O2['weights']}

    def native(self, ctx, inst, Ic):
        a1, a2 = self._calls(inst, Ic)
        n1, O1, t1 = nat_kernel(ctx, 'gis', 'c_cell2coord', a1)
        if n1['status'] != 'ok':
            return n1, {}, t1
        n2, O2, t2 = nat_kernel(ctx, 'gis', 'c_intersect', a2(O1['xy_area']))
        if n2['status'] != 'ok':
            return n2, {}, t1 + t2
        return n2, {'ret': O2['ret'], 'xy': O1['xy_area'], 'npoints': O2['npoints'][0], 'idxcells': O2['idxcells'], 'weights': O2['weights']}, t1 + t2

    def spec(self, inst, I, O):
        k, cr, cc, ratio = inst['ncells'], inst['cr'], inst['cc'], inst['ratio']
        ng = cr * cc
        factor = Fraction(1, ratio * ratio)
        # where each catchment cell centre falls in the coarse grid (independent reference: centre of fine cell, floor on the coarse grid)
        target = []
        for i in range(k):
            c = I['cells'][i]
            col = c % inst['fc']
            row = (c - col) / inst['fc'] if z3.is_expr(c) else (c - col) // inst['fc']
            cx = fadd(I['fxll'], fadd(tor(col), Fraction(1, 2)))
            cy = fadd(I['fyll'], fadd(tor(inst['fr'] - 1 - row), Fraction(1, 2)))
            gx = zfloor(fdiv(fsub(cx, I['xll']), float(ratio)))
            gy = zfloor(fdiv(fsub(cy, I['yll']), float(ratio)))
            inside = b_and(gx >= 0, gx < cc, gy >= 0, gy < cr)
            target.append(iite(inside, (cr - 1 - gy) * cc + gx, -1))
        npts, idx, w = O['npoints'], O['idxcells'], O['weights']
        res = [('ret0', O['ret'] == 0), ('npoints-range', b_and(npts >= 0, npts <= ng))]
        ninside = count(t >= 0 for t in target)
        total = 0.0
        for g in range(ng):
            cnt = count(t == g for t in target)
            listed = count(b_and(j < npts, idx[j] == g) for j in range(ng))
            res.append(('each-grid-cell-once[%d]' % g, listed == iite(cnt > 0, 1, 0)))
            wg = fsum(fite(b_and(j < npts, idx[j] == g), w[j], 0.0) for j in range(ng))
            res.append(('weight=count*area-ratio[%d]' % g, fsame(wg, fmul(tor(cnt), factor), self.tol, stol=1e-12)))
            total = fadd(total, wg)
        res.append(('listed-cells-valid', forall(b_implies(j < npts, b_and(idx[j] >= 0, idx[j] < ng)) for j in range(ng))))
        res.append(('area-conserved', fsame(fmul(total, float(ratio * ratio)), tor(ninside), self.tol, stol=1e-12)))
        return res


class Voronoi(Family):
    prop = 'C16'
    name = 'voronoi'
    pkg = 'gis'
    kernel = 'c_voronoi'
    srcfile = SRC
    sqrt_mode = 'monotone'

    def instances(self, tier):
        combos = [(1, 1), (1, 2), (2, 1), (2, 2), (3, 2)] if tier == 'quick' else [(1, 1), (1, 2), (2, 1), (2, 2), (3, 2), (2, 3), (3, 3), (1, 3)]
        cellsets = {1: [[0], [3]], 2: [[0, 3], [1, 1], [2, 0]], 3: [[0, 1, 3], [2, 2, 1]]}
        return [dict(ncells=c, npoints=p, cells=cs) for c, p in combos for cs in cellsets[c]]

    def cost(self, inst):
        return 3 ** (inst['ncells'] * inst['npoints'])

    def inputs(self, inst, S):
        return dict(cells=list(inst['cells']),
                    pts=[S.real('p%d' % i, -5, 5) for i in range(2 * inst['npoints'])],
                    xll=S.real('xll', -2, 2), yll=S.real('yll', -2, 2))

    def args(self, inst, I):
        return [Scalar('i64', 2), Scalar('i64', 2), Scalar('double', I['xll']), Scalar('double', I['yll']), Scalar('double', 1.0),
                Scalar('i64', inst['ncells']), Buf('idxcells_area', 'i64', I['cells']), Scalar('i64', inst['npoints']),
                Buf('xypoints', 'double', I['pts']), Buf('weights', 'double', [0.0] * inst['npoints'], out=True)]

    def spec(self, inst, I, O):
        nc, npt = inst['ncells'], inst['npoints']
        w = O['weights']
        res = [('ret0', O['ret'] == 0), ('points-unchanged', forall(fsame(a, b) for a, b in zip(O['xypoints'], I['pts'])))]
        counts = [0] * npt
        for i in range(nc):
            c = I['cells'][i]
            col = c % 2
            row = (c - col) / 2 if z3.is_expr(c) else (c - col) // 2
            cx = fadd(I['xll'], fadd(tor(col), Fraction(1, 2)))
            cy = fadd(I['yll'], fadd(tor(1 - row), Fraction(1, 2)))
            d2 = []
            for j in range(npt):
                dx, dy = fsub(cx, I['pts'][2 * j]), fsub(cy, I['pts'][2 * j + 1])
                d2.append(fadd(fmul(dx, dx), fmul(dy, dy)))
            for j in range(npt):
                # nearest point, equidistant ties resolved to the lowest index
                nearest = b_and(forall(fgt(d2[k], d2[j]) for k in range(j)), forall(fge(d2[k], d2[j]) for k in range(j + 1, npt)))
                counts[j] = counts[j] + iite(nearest, 1, 0)
        for j in range(npt):
            res.append(('weight=fraction-of-nearest-cells[%d]' % j, fsame(w[j], fmul(tor(counts[j]), Fraction(1, nc)), self.tol)))
            res.append(('weight>=0[%d]' % j, fge(w[j], 0.0)))
        res.append(('weights-sum-to-1', fsame(fsum(w), 1.0, self.tol)))
        return res


def wrapper_intersect(tier):
    """Catchment.intersect: the kernel receives the centres of the catchment cells and output vectors of nrows*ncols entries; the
    returned weight grid places every weight at the row / column of its grid cell (also when whole rows or columns between
    occupied ones are empty), with the parent row/column bookkeeping and the lower-left corner of the sub-grid"""
    import numpy as np
    from hydrodiy.gis import grid as G
    from engine.contracts import Recorder, patched_module
    out = []
    real = G.c_hydrodiy_gis
    for (nr, nc, cells, weights) in [(3, 3, [0, 8], [0.25, 0.5]), (3, 4, [1, 9, 11], [1.0, 0.5, 0.25]), (4, 4, [5], [2.0]), (3, 3, [0, 2, 6, 8], [1, 2, 3, 4])]:
        fine = G.Grid('fd', 6, 6, cellsize=1.0, dtype=np.int64)
        fine.data = np.full((6, 6), 4, dtype=np.int64)
        ca = G.Catchment('c', fine)
        ca._idxcells_area = np.array([0, 7, 14], dtype=np.int64)
        coarse = G.Grid('g', nc, nr, cellsize=2.0, xllcorner=-1.0, yllcorner=3.0)

        def beh_intersect(c, cells=cells, weights=weights):
            c.raw_args[7][0] = len(cells)
            c.raw_args[8][:len(cells)] = cells
            c.raw_args[9][:len(cells)] = weights
            return 0
        rec = Recorder({'intersect': beh_intersect, 'cell2coord': lambda c: real.cell2coord(*c.raw_args),
                        'cell2rowcol': lambda c: real.cell2rowcol(*c.raw_args)})
        with patched_module(G, 'c_hydrodiy_gis', rec):
            ag, idx, w = ca.intersect(coarse)
        c = [c for c in rec.calls if c.name == 'intersect'][0]
        tag = dict(nrows=nr, ncols=nc, cells=cells)
        want_xy = np.array([[0.5, 5.5], [1.5, 4.5], [2.5, 3.5]])
        out.append(('kernel-gets-catchment-cell-centres', np.allclose(c.args[6], want_xy) and float(c.args[5]) == 1.0 and float(c.args[4]) == 2.0, tag))
        out.append(('output-vectors-sized-nrows*ncols', len(c.args[8]) == nr * nc and len(c.args[9]) == nr * nc, tag))
        rows, cols = [k // nc for k in cells], [k % nc for k in cells]
        r0, c0 = min(rows), min(cols)
        want = np.zeros((max(rows) - r0 + 1, max(cols) - c0 + 1))
        for k, wt in zip(cells, weights):
            want[k // nc - r0, k % nc - c0] = wt
        out.append(('weight-at-matching-row-and-column', ag.data.shape == want.shape and np.allclose(ag.data, want), dict(tag, got=ag.data.tolist())))
        out.append(('returned-cells-and-weights', list(idx) == cells and np.allclose(w, weights), tag))
        out.append(('sub-grid-corner', abs(ag.xllcorner - (-1.0 + 2.0 * c0)) < 1e-9 and abs(ag.yllcorner - (3.0 + 2.0 * (nr - 1 - max(rows)))) < 1e-9, tag))
    # every catchment cell centre is handed to the kernel, also centres lying exactly on the outer edges of the intersecting grid
    # (the kernel decides what is inside), for the plain and the filled area
    fine = G.Grid('fd', 6, 6, cellsize=1.0, dtype=np.int64)
    fine.data = np.full((6, 6), 4, dtype=np.int64)
    for xll, yll in ((0.5, 3.5), (-0.5, 2.5), (2.5, 5.5)):
        for filled in (False, True):
            ca = G.Catchment('c', fine)
            ca._idxcells_area = np.array([0, 7, 14], dtype=np.int64)
            ca._idxcells_area_filled = np.array([0, 1, 7, 14], dtype=np.int64)
            coarse = G.Grid('g', 2, 2, cellsize=2.0, xllcorner=xll, yllcorner=yll)
            rec = Recorder({'intersect': lambda c: (c.raw_args[7].__setitem__(0, 1), 0)[1], 'cell2coord': lambda c: real.cell2coord(*c.raw_args),
                            'cell2rowcol': lambda c: real.cell2rowcol(*c.raw_args)})
            with patched_module(G, 'c_hydrodiy_gis', rec):
                try:
                    ca.intersect(coarse, filled=filled)
                except Exception:
                    pass
            c = [c for c in rec.calls if c.name == 'intersect'][0]
            want = np.array([[0.5, 5.5], [1.5, 5.5], [1.5, 4.5], [2.5, 3.5]]) if filled else np.array([[0.5, 5.5], [1.5, 4.5], [2.5, 3.5]])
            out.append(('all-catchment-centres-reach-the-kernel', c.args[6].shape == want.shape and np.allclose(c.args[6], want),
                        dict(xll=xll, yll=yll, filled=filled, got=c.args[6].tolist())))
    # the cells handed to the kernel are those of the catchment AT THE TIME OF THE CALL: an earlier intersect on one operand of a sum /
    # difference (or on the same object before its area changes) must not leak into the next call
    def centres_of(cells):
        return np.array([[(k % 6) + 0.5, 6 - (k // 6) - 0.5] for k in cells])
    for opname in ('add', 'sub', 'reassign'):
        ca1, ca2 = G.Catchment('a', fine), G.Catchment('b', fine)
        ca1._idxcells_area = np.array([0, 1, 7], dtype=np.int64)
        ca1._idxcells_area_filled = ca1._idxcells_area.copy()
        ca2._idxcells_area = np.array([7, 14, 21, 28], dtype=np.int64)
        ca2._idxcells_area_filled = ca2._idxcells_area.copy()
        coarse = G.Grid('g', 3, 3, cellsize=2.0)
        behaviour = {'intersect': lambda c: (c.raw_args[7].__setitem__(0, 1), 0)[1], 'cell2coord': lambda c: real.cell2coord(*c.raw_args),
                     'cell2rowcol': lambda c: real.cell2rowcol(*c.raw_args)}
        rec = Recorder(behaviour)
        with patched_module(G, 'c_hydrodiy_gis', rec):
            try:
                ca1.intersect(coarse)
                if opname == 'add':
                    ca = ca1 + ca2
                elif opname == 'sub':
                    ca = ca2 - ca1
                else:
                    ca = ca1
                    ca._idxcells_area = np.array([20, 27], dtype=np.int64)
                    ca._idxcells_area_filled = ca._idxcells_area.copy()
                ca.intersect(coarse)
            except Exception:
                pass
        calls = [c for c in rec.calls if c.name == 'intersect']
        want = centres_of(sorted(map(int, ca._idxcells_area)))
        ok = len(calls) == 2 and calls[1].args[6].shape == want.shape and np.allclose(calls[1].args[6], want)
        out.append(('kernel-gets-the-current-catchment-cells-after-%s' % opname, ok, dict(got=calls[1].args[6].tolist() if len(calls) == 2 else None, want=want.tolist())))
    # voronoi works on the catchment cells (not the hole-filled area) and returns the kernel's weights
    ca = G.Catchment('c', fine)
    ca._idxcells_area = np.array([0, 1, 2, 6, 8, 12, 13, 14], dtype=np.int64)
    ca._idxcells_area_filled = np.array([0, 1, 2, 6, 7, 8, 12, 13, 14], dtype=np.int64)
    pts = np.array([[0.5, 5.5], [2.5, 3.5]])

    def vor(c):
        c.raw_args[7][:] = [0.625, 0.375]
        return 0
    rec = Recorder({'voronoi': vor})
    with patched_module(G, 'c_hydrodiy_gis', rec):
        w = G.voronoi(ca, pts)
    c = rec.calls[-1]
    out.append(('voronoi-gets-the-catchment-cells', list(map(int, c.args[5])) == [0, 1, 2, 6, 8, 12, 13, 14], dict(got=list(map(int, c.args[5])))))
    out.append(('voronoi-points-and-weights', np.array_equal(c.args[6], pts) and len(c.args[7]) == 2 and list(w) == [0.625, 0.375], {}))
    return out


CONTRACTS = [wrapper_intersect]


def contracts_part(tier, seed, workdir):
    from engine.contracts import run_contracts
    return run_contracts('C16', 'harness.C16', CONTRACTS, tier)


FAMILIES = [Intersect(), Voronoi()]
PARTS = [contracts_part]

META = dict(
    explanation='bounded symbolic execution of the LLVM IR of c_cell2coord -> c_intersect (composed as Catchment.intersect does) with symbolic distinct '
                'catchment cells and symbolic origins of both grids (partial / no overlap and centres on coarse-cell edges are feasible valuations), and '
                'of c_voronoi with symbolic cells and point coordinates (sqrt as an exact real root); every feasible path is compared by z3 with an '
                'independent count-based reference',
    bounds=['intersect: fine grid 2x2 (thorough 3x3, 2x3), coarse grid 1x1, 1x2, 2x2 (thorough + 2x1), cell-size ratio 1-2 (thorough 1-4), 1-2 catchment '
            'cells (thorough 3), origins in [-20,20]', 'voronoi: 2x2 grid with symbolic origin, listed catchment cell tuples of 1-3 cells, 1-2 points (thorough 3) anywhere in [-5,5]^2'],
    outside=['rounding (exact reals)', 'the numpy scatter into area_grid is only exercised by the recorded wrapper scenario (finite configurations)'],
    assumptions=['fine cell size 1, coarse cell size = ratio (scale invariance not separately shown)'],
    stubs=['sqrt(x): order-only model (non-negative, zero iff x = 0, below max(1,x), strictly monotone across the square roots of a path)'],
)
