"""CrossHair contracts for C09 (csv comment header): each function calls the real hydrodiy.io.csv code."""
import re
from pathlib import Path
from hydrodiy.io import csv

KEY2 = "ab"
KEY25 = "abcdefghij_klmnopqrst_uvwx"[:25]


def _ok_value(val: str) -> bool:
    return 1 <= len(val) <= 4 and val == val.strip() and chr(10) not in val and chr(13) not in val


def header_roundtrip_short_key(val: str) -> bool:
    """
    pre: 1 <= len(val) <= 4 and val == val.strip() and chr(10) not in val and chr(13) not in val
    post: _
    """
    return csv._header2comment([KEY2 + " : " + val]) == {KEY2: val}


def header_roundtrip_short_key_twin(val: str) -> bool:
    """
    pre: 1 <= len(val) <= 4 and val == val.strip() and chr(10) not in val and chr(13) not in val
    post: not _
    """
    return True


def header_roundtrip_long_key(val: str) -> bool:
    """
    pre: 1 <= len(val) <= 4 and val == val.strip() and chr(10) not in val and chr(13) not in val
    post: _
    """
    return csv._header2comment([KEY25 + " : " + val]) == {KEY25: val}


def header_roundtrip_long_key_twin(val: str) -> bool:
    """
    pre: 1 <= len(val) <= 4 and val == val.strip() and chr(10) not in val and chr(13) not in val
    post: not _
    """
    return True


def written_header_reads_back(val: str) -> bool:
    """
    pre: 1 <= len(val) <= 3 and val == val.strip() and chr(10) not in val and chr(13) not in val
    post: _
    """
    head = csv._csvhead(12, 3, {"station": val}, source_file=Path("script.py"), write_sys_info=False, author="me")
    # what read_csv does with each header line
    lines = [re.sub("^# *|" + chr(10) + "$", "", h + chr(10)) for h in head]
    com = csv._header2comment(lines)
    return com.get("station") == val and com.get("nrow") == "12" and com.get("ncol") == "3" and com.get("author") == "me"


def written_header_twin(val: str) -> bool:
    """
    pre: 1 <= len(val) <= 3 and val == val.strip() and chr(10) not in val and chr(13) not in val
    post: not _
    """
    return True


def counts_read_back(nrow: int, ncol: int) -> bool:
    """
    pre: 0 <= nrow <= 9999 and 0 <= ncol <= 99
    post: _
    """
    head = csv._csvhead(nrow, ncol, "c", source_file=Path("script.py"), write_sys_info=False, author="me")
    lines = [re.sub("^# *|" + chr(10) + "$", "", h + chr(10)) for h in head]
    com = csv._header2comment(lines)
    return com.get("nrow") == str(nrow) and com.get("ncol") == str(ncol) and com.get("comment") == "c"


def counts_twin(nrow: int, ncol: int) -> bool:
    """
    pre: 0 <= nrow <= 9999 and 0 <= ncol <= 99
    post: not _
    """
    return True


CONTRACTS = [
    dict(name='header_roundtrip_short_key', twin='header_roundtrip_short_key_twin', what='_header2comment returns a single-line value unchanged under a 2-character key'),
    dict(name='header_roundtrip_long_key', twin='header_roundtrip_long_key_twin', what='_header2comment returns a single-line value unchanged under a 25-character key'),
    dict(name='written_header_reads_back', twin='written_header_twin', what='_csvhead line -> reader prefix stripping -> _header2comment returns the caller comment and the counts'),
    dict(name='counts_read_back', twin='counts_twin', what='recorded row / column counts are returned unchanged'),
]
