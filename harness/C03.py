"""C03 — CRPS equals its definition and its decomposition is exact (engine A, XR)."""
from fractions import Fraction
from engine.llir.harness import Family, Scalar, Buf
from engine.ops import *


def crps_definition(obs, ens):
    """mean over forecasts of E|X-y| - 0.5 E|X-X'| over the empirical ensemble distribution"""
    n, m = len(obs), len(ens[0])
    tot = 0.0
    for i in range(n):
        e1 = fsum(fabs_(fsub(ens[i][j], obs[i])) for j in range(m))
        e2 = fsum(fabs_(fsub(ens[i][j], ens[i][k])) for j in range(m) for k in range(m))
        tot = fadd(tot, fsub(fmul(Fraction(1, m), e1), fmul(Fraction(1, 2 * m * m), e2)))
    return fmul(Fraction(1, n), tot)


class Crps(Family):
    prop = 'C03'
    name = 'crps'
    pkg = 'stat'
    kernel = 'c_crps'
    srcfile = 'stat/c_crps.c'
    time_budget = {'quick': 250, 'thorough': 2400}
    tol = 1e-9

    def instances(self, tier):
        shapes = [(1, 1), (1, 2), (2, 1), (2, 2), (1, 3), (3, 1)] + ([(3, 2), (2, 3), (1, 4), (4, 1)] if tier == 'thorough' else [])
        return [dict(nval=n, ncol=m) for n, m in shapes]

    def cost(self, inst):
        return 10 ** (inst['nval'] * inst['ncol'])

    def inputs(self, inst, S):
        n, m = inst['nval'], inst['ncol']
        return dict(obs=[S.real('y%d' % i) for i in range(n)], ens=[[S.real('x%d_%d' % (i, j)) for j in range(m)] for i in range(n)])

    def args(self, inst, I):
        n, m = inst['nval'], inst['ncol']
        flat = [v for row in I['ens'] for v in row]
        # metrics.crps: weights zeros, use_weights=0, is_sorted=0, table (m+1)x7 zeros, decompos zeros
        return [Scalar('i32', n), Scalar('i32', m), Scalar('i32', 0), Scalar('i32', 0), Buf('obs', 'double', I['obs']),
                Buf('sim', 'double', flat), Buf('weights', 'double', [0.0] * n), Buf('table', 'double', [0.0] * (7 * (m + 1)), out=True),
                Buf('decompos', 'double', [0.0] * 5, out=True)]

    def spec(self, inst, I, O):
        n, m = inst['nval'], inst['ncol']
        d = O['decompos']
        obs, ens = I['obs'], I['ens']
        t = self.tol
        clim = fmul(Fraction(1, 2 * n * n), fsum(fabs_(fsub(obs[i], obs[k])) for i in range(n) for k in range(n)))
        res = [('ret0', O['ret'] == 0),
               ('crps=definition', fsame(d[0], crps_definition(obs, ens), t)),
               ('crps=reliability+potential', fsame(d[0], fadd(d[1], d[4]), t)),
               ('resolution=uncertainty-potential', fsame(d[2], fsub(d[3], d[4]), t)),
               ('reliability>=0', fge(d[1], -1e-12)), ('potential>=0', fge(d[4], -1e-12)), ('uncertainty>=0', fge(d[3], -1e-12)),
               ('uncertainty=crps-of-climatology', fsame(d[3], clim, t)),
               ('obs-unchanged', forall(fsame(a, b) for a, b in zip(O['obs'], obs))),
               ('ens-unchanged', forall(fsame(a, b) for a, b in zip(O['sim'], [v for row in ens for v in row])))]
        tab = O['table']
        # reliability table: frequency column j/m, and the bins add up to the decomposition
        res.append(('table-frequency', forall(fsame(tab[7 * j], Fraction(j, m), t) for j in range(m + 1))))
        res.append(('table-crps', fsame(d[0], fsum(fadd(fmul(tab[7 * j + 1], Fraction(j * j, m * m)),
                                                       fmul(tab[7 * j + 2], Fraction((m - j) ** 2, m * m))) for j in range(m + 1)), t)))
        return res


FAMILIES = [Crps()]

META = dict(
    explanation='bounded symbolic execution of the LLVM IR of c_crps (malloc, qsort modelled as a stable insertion sort calling the real comparator, '
                'pow(x,2)=x*x, fabs) with all observations and members symbolic; on every feasible path z3 decides equality with the definition '
                'E|X-y| - 0.5 E|X-X\'|, the two decomposition identities, non-negativity and uncertainty = CRPS of the climatology',
    bounds=['(nval, ncol) in {1x1,1x2,2x1,2x2,1x3,3x1} quick; + 3x2, 2x3, 1x4, 4x1 thorough; all values finite reals (ties are feasible valuations)'],
    outside=['use_weights=1 (not reachable from metrics.crps)', 'rounding (exact reals with exact rational constants)',
             'the Python wrapper\'s dropping of missing observations (pandas notnull) is checked in the pysym part when built',
             'larger shapes'],
    assumptions=['qsort = stable insertion sort with the real comparator (glibc 2.36 qsort is a stable merge sort); the result of sorting doubles '
                 'by value does not depend on stability', 'malloc never fails'],
    stubs=['malloc/free: fresh object', 'qsort: insertion sort in the interpreter calling the IR comparator', 'pow(x,2)=x*x'],
)
