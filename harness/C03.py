"""C03 — CRPS equals its definition and its decomposition is exact (engine A, XR)."""
from fractions import Fraction
from engine.llir.harness import Family, Scalar, Buf
from engine.ops import *


def crps_definition(obs, ens):
    """mean over forecasts of E|X-y| - 0.5 E|X-X'| over the empirical ensemble distribution"""
    n, m = len(obs), len(ens[0])
    tot = 0.0
    for i in range(n):
        e1 = fsum(fabs_(fsub(ens[i][j], obs[i])) for j in range(m))
        e2 = fsum(fabs_(fsub(ens[i][j], ens[i][k])) for j in range(m) for k in range(m))
        tot = fadd(tot, fsub(fmul(Fraction(1, m), e1), fmul(Fraction(1, 2 * m * m), e2)))
    return fmul(Fraction(1, n), tot)


class Crps(Family):
    prop = 'C03'
    name = 'crps'
    pkg = 'stat'
    kernel = 'c_crps'
    srcfile = 'stat/c_crps.c'
    time_budget = {'quick': 250, 'thorough': 2400}
    tol = 1e-9

    def instances(self, tier):
        shapes = [(1, 1), (1, 2), (2, 1), (2, 2), (1, 3), (3, 1)] + ([(3, 2), (2, 3), (1, 4), (4, 1)] if tier == 'thorough' else [])
        return [dict(nval=n, ncol=m) for n, m in shapes]

    def cost(self, inst):
        return 10 ** (inst['nval'] * inst['ncol'])

    def inputs(self, inst, S):
        n, m = inst['nval'], inst['ncol']
        return dict(obs=[S.real('y%d' % i) for i in range(n)], ens=[[S.real('x%d_%d' % (i, j)) for j in range(m)] for i in range(n)])

    def args(self, inst, I):
        n, m = inst['nval'], inst['ncol']
        flat = [v for row in I['ens'] for v in row]
        # metrics.crps: weights zeros, use_weights=0, is_sorted=0, table (m+1)x7 zeros, decompos zeros
        return [Scalar('i32', n), Scalar('i32', m), Scalar('i32', 0), Scalar('i32', 0), Buf('obs', 'double', I['obs']),
                Buf('sim', 'double', flat), Buf('weights', 'double', [0.0] * n), Buf('table', 'double', [0.0] * (7 * (m + 1)), out=True),
                Buf('decompos', 'double', [0.0] * 5, out=True)]

    def spec(self, inst, I, O):
        n, m = inst['nval'], inst['ncol']
        d = O['decompos']
        obs, ens = I['obs'], I['ens']
        t = self.tol
        clim = fmul(Fraction(1, 2 * n * n), fsum(fabs_(fsub(obs[i], obs[k])) for i in range(n) for k in range(n)))
        res = [('ret0', O['ret'] == 0),
               ('crps=definition', fsame(d[0], crps_definition(obs, ens), t)),
               ('crps=reliability+potential', fsame(d[0], fadd(d[1], d[4]), t)),
               ('resolution=uncertainty-potential', fsame(d[2], fsub(d[3], d[4]), t)),
               ('reliability>=0', fge(d[1], -1e-12)), ('potential>=0', fge(d[4], -1e-12)), ('uncertainty>=0', fge(d[3], -1e-12)),
               ('uncertainty=crps-of-climatology', fsame(d[3], clim, t)),
               ('obs-unchanged', forall(fsame(a, b) for a, b in zip(O['obs'], obs))),
               ('ens-unchanged', forall(fsame(a, b) for a, b in zip(O['sim'], [v for row in ens for v in row])))]
        tab = O['table']
        # reliability table: frequency column j/m, and the bins add up to the decomposition
        res.append(('table-frequency', forall(fsame(tab[7 * j], Fraction(j, m), t) for j in range(m + 1))))
        res.append(('table-crps', fsame(d[0], fsum(fadd(fmul(tab[7 * j + 1], Fraction(j * j, m * m)),
                                                       fmul(tab[7 * j + 2], Fraction((m - j) ** 2, m * m))) for j in range(m + 1)), t)))
        return res


def wrapper_crps(tier):
    """metrics.crps drops exactly the forecasts whose observation is missing (or whose ensemble is entirely missing), and calls the
    kernel with use_weights=0, is_sorted=0, a zeroed (m+1)x7 table and a zeroed decomposition vector"""
    import numpy as np
    from hydrodiy.stat import metrics as M
    from engine.contracts import Recorder, patched_module
    out = []
    nan = np.nan
    cases = [([1.0, 2.0, 3.0], [[1., 2.], [2., 3.], [0., 1.]], [0, 1, 2]),
             ([1.0, nan, 3.0], [[1., 2.], [2., 3.], [0., 1.]], [0, 2]),
             ([nan, 2.0, nan, 4.0], [[1.], [2.], [5.], [6.]], [1, 3]),
             ([1.0, 2.0, 3.0], [[1., 2.], [nan, nan], [0., 1.]], [0, 2]),
             ([1.0, 2.0], [[nan, 2.], [2., 3.]], [0, 1]),
             # as many members as forecasts: rows stay forecasts
             ([1.0, 2.0], [[1., 5.], [2., 7.]], [0, 1]), ([3.0, 1.0, 2.0], [[1., 5., 9.], [2., 7., 8.], [0., 4., 6.]], [0, 1, 2])]
    for obs, ens, keep in cases:
        rec = Recorder()
        with patched_module(M, 'c_hydrodiy_stat', rec):
            M.crps(np.array(obs), np.array(ens))
        c = rec.calls[-1]
        tag = dict(obs=obs, ens=ens)
        m = len(ens[0])
        out.append(('flags', int(c.args[0]) == 0 and int(c.args[1]) == 0, tag))
        out.append(('observations-with-missing-value-dropped', np.array_equal(c.args[2], np.array(obs)[keep]), dict(tag, got=c.args[2].tolist())))
        out.append(('matching-ensemble-rows', np.array_equal(c.args[3], np.array(ens)[keep], equal_nan=True), dict(tag, got=c.args[3].tolist())))
        out.append(('table-and-decomposition-zeroed', c.args[5].shape == (m + 1, 7) and np.all(c.args[5] == 0) and c.args[6].shape == (5,) and np.all(c.args[6] == 0), tag))
    # what the kernel writes is what the caller gets (negative resolution included)
    vals = np.array([0.7, 0.2, -0.3, 0.2, 0.5])

    def fill(c):
        c.raw_args[6][:] = vals
        c.raw_args[5][:] = np.arange(c.raw_args[5].size, dtype=float).reshape(c.raw_args[5].shape) - 3.0
        return 0
    rec = Recorder({'crps': fill})
    with patched_module(M, 'c_hydrodiy_stat', rec):
        dec, tab = M.crps(np.array([1.0, 2.0]), np.array([[1., 2.], [2., 3.]]))
    out.append(('decomposition-returned-as-computed', list(dec.index) == ['crps', 'reliability', 'resolution', 'uncertainty', 'potential'] and
                np.array_equal(dec.values, vals), dict(got=dec.values.tolist())))
    out.append(('table-returned-as-computed', np.array_equal(tab.values, np.arange(21, dtype=float).reshape(3, 7) - 3.0), {}))
    return out


CONTRACTS = [wrapper_crps]


def contracts_part(tier, seed, workdir):
    from engine.contracts import run_contracts
    return run_contracts('C03', 'harness.C03', CONTRACTS, tier)


FAMILIES = [Crps()]
PARTS = [contracts_part]

META = dict(
    explanation='bounded symbolic execution of the LLVM IR of c_crps (malloc, qsort modelled as a stable insertion sort calling the real comparator, '
                'pow(x,2)=x*x, fabs) with all observations and members symbolic; on every feasible path z3 decides equality with the definition '
                'E|X-y| - 0.5 E|X-X\'|, the two decomposition identities, non-negativity and uncertainty = CRPS of the climatology',
    bounds=['(nval, ncol) in {1x1,1x2,2x1,2x2,1x3,3x1} quick; + 3x2, 2x3, 1x4, 4x1 thorough; all values finite reals (ties are feasible valuations)'],
    outside=['use_weights=1 (not reachable from metrics.crps)', 'rounding (exact reals with exact rational constants)',
             'the Python wrapper\'s dropping of missing observations (pandas notnull) is checked in the pysym part when built',
             'larger shapes'],
    assumptions=['qsort = stable insertion sort with the real comparator (glibc 2.36 qsort is a stable merge sort); the result of sorting doubles '
                 'by value does not depend on stability', 'malloc never fails'],
    stubs=['malloc/free: fresh object', 'qsort: insertion sort in the interpreter calling the IR comparator', 'pow(x,2)=x*x'],
)
