"""C17 — AR simulation and residual computation are exact inverses (engine A, XR; polynomial real arithmetic)."""
from engine.llir.harness import Family, Scalar, Buf, sym_kernel, nat_kernel
from engine.ops import *

SRC = 'stat/c_armodels.c'


def ar_args(order, nval, I, series, outname):
    return [Scalar('i32', nval), Scalar('i32', order), Scalar('double', I['mean']), Scalar('double', I['ini']),
            Buf('params', 'double', I['phi']), Buf('series', 'double', series), Buf(outname, 'double', [0.0] * nval, out=True)]


def ref_sim(phi, mean, ini, e):
    """y[t]-m = sum_k phi[k]*(y[t-k]-m) + e[t], y[<0] = ini, missing innovations are zero"""
    p = len(phi)
    c = []
    for t in range(len(e)):
        et = fite(fisnan(e[t]), 0.0, e[t])
        acc = et
        for k in range(1, p + 1):
            prev = c[t - k] if t - k >= 0 else fsub(ini, mean)
            acc = fadd(acc, fmul(phi[k - 1], prev))
        c.append(acc)
    return [fadd(v, mean) for v in c]


class ArBase(Family):
    prop = 'C17'
    pkg = 'stat'
    srcfile = SRC
    tol = 1e-7

    def instances(self, tier):
        orders = list(range(1, 11))
        extra = 2 if tier == 'quick' else 4
        nanpos = (lambda p: [0, 1, p]) if tier == 'quick' else (lambda p: [0, 1, 2, p, p + 1, p + 3])
        return [dict(order=p, nval=p + extra, nanpos=sorted(set(nanpos(p)))) for p in orders] + \
               [dict(order=1, nval=0, nanpos=[]), dict(order=3, nval=1, nanpos=[0])]

    def cost(self, inst):
        return inst['order'] * inst['nval']

    def inputs(self, inst, S):
        p, n = inst['order'], inst['nval']
        # coefficient vectors with sum of absolute values <= 1.5, any sign; magnitudes bounded to keep the algebra well conditioned
        phi = [S.real('phi%d' % k, -1.5, 1.5) for k in range(p)]
        S.assume(isum(z3_abs(v.num) for v in phi) <= 1.5)
        return dict(phi=phi, mean=S.real('mean', -100, 100), ini=S.real('ini', -100, 100),
                    x=[S.real('x%d' % t, -100, 100, nan=(t in inst['nanpos'])) for t in range(n)])


def z3_abs(t):
    import z3
    return z3.If(t >= 0, t, -t)


class Sim(ArBase):
    name = 'sim=recursion'
    kernel = 'c_armodel_sim'

    def args(self, inst, I):
        return ar_args(inst['order'], inst['nval'], I, I['x'], 'outputs')

    def spec(self, inst, I, O):
        ref = ref_sim(I['phi'], I['mean'], I['ini'], I['x'])
        return [('ret0', O['ret'] == 0)] + [('sim[%d]' % t, fsame(O['outputs'][t], ref[t], self.tol)) for t in range(inst['nval'])] + \
               [('innov-unchanged', forall(fsame(a, b) for a, b in zip(O['series'], I['x']))),
                ('params-unchanged', forall(fsame(a, b) for a, b in zip(O['params'], I['phi'])))]


class ResidualOfSim(ArBase):
    name = 'residual(sim(e))=e'
    kernel = 'c_armodel_sim'

    def execute(self, ex, path, inst, I, srcfile):
        p, n = inst['order'], inst['nval']
        O1 = sym_kernel(ex, path, 'c_armodel_sim', ar_args(p, n, I, I['x'], 'outputs'), srcfile)
        O2 = sym_kernel(ex, path, 'c_armodel_residual', ar_args(p, n, I, O1['outputs'], 'residuals'), srcfile)
        return {'ret': O2['ret'], 'ret1': O1['ret'], 'back': O2['residuals']}

    def native(self, ctx, inst, Ic):
        p, n = inst['order'], inst['nval']
        n1, O1, t1 = nat_kernel(ctx, 'stat', 'c_armodel_sim', ar_args(p, n, Ic, Ic['x'], 'outputs'))
        if n1['status'] != 'ok':
            return n1, {}, t1
        n2, O2, t2 = nat_kernel(ctx, 'stat', 'c_armodel_residual', ar_args(p, n, Ic, O1['outputs'], 'residuals'))
        return n2, {'ret': O2.get('ret'), 'ret1': O1['ret'], 'back': O2.get('residuals')}, t1 + t2

    def spec(self, inst, I, O):
        return [('ret0', b_and(O['ret'] == 0, O['ret1'] == 0))] + \
               [('residual(sim(e))[%d]' % t, fsame(O['back'][t], fite(fisnan(I['x'][t]), 0.0, I['x'][t]), self.tol)) for t in range(inst['nval'])]


class SimOfResidual(ArBase):
    name = 'sim(residual(y))=y'
    kernel = 'c_armodel_residual'

    def execute(self, ex, path, inst, I, srcfile):
        p, n = inst['order'], inst['nval']
        O1 = sym_kernel(ex, path, 'c_armodel_residual', ar_args(p, n, I, I['x'], 'residuals'), srcfile)
        O2 = sym_kernel(ex, path, 'c_armodel_sim', ar_args(p, n, I, O1['residuals'], 'outputs'), srcfile)
        return {'ret': O2['ret'], 'ret1': O1['ret'], 'res': O1['residuals'], 'back': O2['outputs']}

    def native(self, ctx, inst, Ic):
        p, n = inst['order'], inst['nval']
        n1, O1, t1 = nat_kernel(ctx, 'stat', 'c_armodel_residual', ar_args(p, n, Ic, Ic['x'], 'residuals'))
        if n1['status'] != 'ok':
            return n1, {}, t1
        n2, O2, t2 = nat_kernel(ctx, 'stat', 'c_armodel_sim', ar_args(p, n, Ic, O1['residuals'], 'outputs'))
        return n2, {'ret': O2.get('ret'), 'ret1': O1['ret'], 'res': O1['residuals'], 'back': O2.get('outputs')}, t1 + t2

    def spec(self, inst, I, O):
        res = [('ret0', b_and(O['ret'] == 0, O['ret1'] == 0))]
        for t in range(inst['nval']):
            miss = fisnan(I['x'][t])
            res.append(('missing-input->zero-residual[%d]' % t, b_implies(miss, fsame(O['res'][t], 0.0, self.tol))))
            res.append(('sim(residual(y))[%d]' % t, b_implies(b_not(miss), fsame(O['back'][t], I['x'][t], self.tol))))
        return res


class Rejects(Family):
    """unsupported orders and NaN parameters are rejected with an error"""
    prop = 'C17'
    name = 'rejects'
    pkg = 'stat'
    kernel = 'c_armodel_sim'
    srcfile = SRC

    def instances(self, tier):
        out = []
        for kern in ('c_armodel_sim', 'c_armodel_residual'):
            out += [dict(kernel=kern, order=0, nbuf=1, what='order'), dict(kernel=kern, order=11, nbuf=11, what='order'),
                    dict(kernel=kern, order=-1, nbuf=1, what='order'),
                    dict(kernel=kern, order=2, nbuf=2, what='nanparam'), dict(kernel=kern, order=2, nbuf=2, what='nanmean'),
                    dict(kernel=kern, order=2, nbuf=2, what='nanini'), dict(kernel=kern, order=10, nbuf=10, what='valid')]
        return out

    def inputs(self, inst, S):
        what = inst['what']
        phi = [S.real('phi%d' % k, -2, 2, nan=(what == 'nanparam')) for k in range(inst['nbuf'])]
        if what == 'nanparam':
            S.assume(exists(fisnan(v) for v in phi[:inst['order']]))
        return dict(phi=phi, mean=S.real('mean', -5, 5, nan=(what == 'nanmean')), ini=S.real('ini', -5, 5, nan=(what == 'nanini')),
                    x=[S.real('x0', -5, 5), S.real('x1', -5, 5)])

    def execute(self, ex, path, inst, I, srcfile):
        return sym_kernel(ex, path, inst['kernel'], self._a(inst, I), srcfile)

    def native(self, ctx, inst, Ic):
        return nat_kernel(ctx, 'stat', inst['kernel'], self._a(inst, Ic))

    def _a(self, inst, I):
        return [Scalar('i32', 2), Scalar('i32', inst['order']), Scalar('double', I['mean']), Scalar('double', I['ini']),
                Buf('params', 'double', I['phi']), Buf('series', 'double', I['x']), Buf('out', 'double', [0.0, 0.0], out=True)]

    def spec(self, inst, I, O):
        what = inst['what']
        if what == 'valid':
            return [('order-10-accepted', O['ret'] == 0)]
        bad = True
        if what == 'nanmean':
            bad = fisnan(I['mean'])
        if what == 'nanini':
            bad = fisnan(I['ini'])
        return [('rejected', b_implies(bad, O['ret'] != 0)), ('accepted-otherwise', b_implies(b_not(bad), O['ret'] == 0)),
                ('no-output-when-rejected', b_implies(bad, forall(fsame(v, 0.0) for v in O['out'])))]


def wrapper_defaults(tier):
    """armodels.armodel_sim / armodel_residual hand the kernels the same (mean, initial value) for the same arguments: an explicit
    sim_ini (zero included) is passed as given, None means the mean; parameters and series are passed as float64 copies; outputs zeroed"""
    import numpy as np
    from hydrodiy.stat import armodels as A
    from engine.contracts import Recorder, patched_module
    out = []
    x = np.array([0.5, -1.0, np.nan, 2.0])
    for mean in (0.0, 2.0, -3.5):
        for ini in (None, 0.0, -0.0, 1.5, 2.0):
            for params in (0.9, [0.5, -0.2]):
                rec = Recorder()
                with patched_module(A, 'c_hydrodiy_stat', rec):
                    A.armodel_sim(params, x, sim_mean=mean, sim_ini=ini)
                    A.armodel_residual(params, x, sim_mean=mean, sim_ini=ini)
                cs, cr = rec.calls[0], rec.calls[1]
                want_ini = mean if ini is None else ini
                tag = dict(sim_mean=mean, sim_ini=ini, params=params)
                out.append(('sim:mean-and-initial-value', float(cs.args[0]) == mean and float(cs.args[1]) == want_ini, dict(tag, got=[float(cs.args[0]), float(cs.args[1])])))
                out.append(('residual:mean-and-initial-value', float(cr.args[0]) == mean and float(cr.args[1]) == want_ini, dict(tag, got=[float(cr.args[0]), float(cr.args[1])])))
                out.append(('params-as-1d-float64', all(c.args[2].dtype == np.float64 and c.args[2].ndim == 1 and np.array_equal(c.args[2], np.atleast_1d(params)) for c in (cs, cr)), tag))
                out.append(('series-passed-unchanged', all(np.array_equal(c.args[3], x, equal_nan=True) for c in (cs, cr)), tag))
                out.append(('series-buffer-not-callers-array', all(not np.shares_memory(c.raw_args[4], x) for c in (cs, cr)), tag))
                out.append(('outputs-zeroed', all(np.all(c.args[4] == 0) and c.args[4].shape == x.shape for c in (cs, cr)), tag))
    # default mean of the residual = nan-mean of the inputs
    rec = Recorder()
    with patched_module(A, 'c_hydrodiy_stat', rec):
        A.armodel_residual(0.5, x)
    out.append(('residual:default-mean=nanmean', abs(float(rec.calls[0].args[0]) - 0.5) < 1e-12 and abs(float(rec.calls[0].args[1]) - 0.5) < 1e-12, {}))
    return out


CONTRACTS = [wrapper_defaults]


def contracts_part(tier, seed, workdir):
    from engine.contracts import run_contracts
    return run_contracts('C17', 'harness.C17', CONTRACTS, tier)


FAMILIES = [Sim(), ResidualOfSim(), SimOfResidual(), Rejects()]
PARTS = [contracts_part]

META = dict(
    explanation='bounded symbolic execution of the LLVM IR of c_armodel_sim / c_armodel_residual and of their two compositions with symbolic '
                'coefficients, mean, initial value and series (polynomial real arithmetic, decided per path by z3/nlsat): sim equals the '
                'reference recursion, residual(sim(e)) = e with missing innovations read as zero, sim(residual(y)) = y on non-missing y, missing '
                'inputs give zero residuals, orders 0/11/-1 and NaN parameters/mean/initial value are rejected',
    bounds=['orders 1..10, length order+2 (quick) / order+4 (thorough), NaN allowed at positions 0, 1, order (thorough also 2, order+1, order+3), '
            'sum |phi| <= 1.5, |mean|,|ini|,|values| <= 100; lengths 0 and 1'],
    outside=['Python wrapper defaults sim_mean/sim_ini (pysym part when built)', 'longer series', 'rounding (exact reals)'],
    assumptions=['doubles as exact reals + NaN flag'],
    stubs=[],
)
