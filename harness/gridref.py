"""Independent reference model of a flow-direction grid (ESRI codes), usable symbolically and concretely."""
from engine.ops import *

# direction code -> (drow, dcol), rows counted from the top
DIRS = {32: (-1, -1), 64: (-1, 0), 128: (-1, 1), 16: (0, -1), 1: (0, 1), 8: (1, -1), 4: (1, 0), 2: (1, 1)}
FLOWDIRCODE = [32, 64, 128, 16, 0, 1, 8, 4, 2]
CODES = [1, 2, 4, 8, 16, 32, 64, 128, 0, 3]   # the eight directions, sink, one invalid value


def code_domain(f):
    return exists(f == c for c in CODES)


def refdown(u, codes, nrows, ncols):
    """downstream cell of concrete cell u: -2 sink, -1 off-grid or invalid code"""
    r, c = divmod(u, ncols)
    f = codes[u]
    res = -1
    for code, (dr, dc) in DIRS.items():
        rr, cc = r + dr, c + dc
        tgt = rr * ncols + cc if (0 <= rr < nrows and 0 <= cc < ncols) else -1
        res = iite(f == code, tgt, res)
    return iite(f == 0, -2, res)


def step_is_diagonal(u, codes):
    f = codes[u]
    return exists(f == c for c in (32, 128, 8, 2))


def reach_layers(codes, nrows, ncols, outlet, inlets):
    """in_k[u]: u reaches the outlet in exactly k downstream steps without passing through an inlet (k = 0..n)"""
    n = nrows * ncols
    down = [refdown(u, codes, nrows, ncols) for u in range(n)]
    layers = [[u == outlet for u in range(n)]]
    for k in range(n):
        prev = layers[-1]
        cur = []
        for u in range(n):
            if u in inlets:
                cur.append(False)
                continue
            cur.append(exists(b_and(down[u] == v, prev[v]) for v in range(n)))
        layers.append(cur)
    return layers, down
