"""C19 — batches partition the work (engine B with a validated model of numpy.array_split) and option grids enumerate every
combination once (engine C, CrossHair)."""
import numpy as np
import z3
from engine.pysym import core
from engine.pysym.core import SI, Rng, assume
from engine.pysym.runner import Case, run_cases


def modules():
    from hydrodiy.io import hyruns
    return [hyruns]


class Batches(Case):
    """all batches of get_batch(n, k, .) for a symbolic number of elements n and a concrete number of batches k"""
    prop = 'C19'

    def __init__(self, k, nmax=10 ** 6):
        self.k, self.nmax = k, nmax
        self.name = 'get_batch:nbatch=%d' % k
        self.params = dict(nbatch=k)
        self.functions = ['hydrodiy.io.hyruns.get_batch']

    def modules(self):
        return modules()

    def inputs(self):
        n = SI(z3.Int('nelements'))
        assume(z3.And(n.e >= self.k, n.e <= self.nmax))
        return dict(n=n)

    def run(self, I):
        from hydrodiy.io import hyruns
        n = I['n']
        secs = []
        for i in range(self.k):
            b = hyruns.get_batch(n, self.k, i)
            if isinstance(b, Rng):
                secs.append((b.start, b.length))
            else:
                b = np.asarray(b)
                contiguous = len(b) > 0 and bool(np.all(np.diff(b) == 1))
                secs.append((int(b[0]) if len(b) else None, len(b) if contiguous or len(b) == 0 else -1))
        return dict(secs=secs)

    def spec(self, I, O, err):
        res = [('valid-call-does-not-raise', err is None)]
        if err is not None:
            return res
        n, secs = I['n'], O['secs']
        res.append(('first-batch-starts-at-0', secs[0][0] == 0))
        tot = 0
        for i, (st, ln) in enumerate(secs):
            res.append(('batch-non-empty-and-contiguous[%d]' % i, ln >= 1))
            if i + 1 < len(secs):
                res.append(('ordered-disjoint-adjacent[%d]' % i, secs[i + 1][0] == st + ln))
            tot = tot + ln
        res.append(('covers-every-element-once', tot == n))
        for i in range(len(secs)):
            for j in range(len(secs)):
                d = secs[i][1] - secs[j][1]
                res.append(('sizes-differ-by-at-most-1[%d,%d]' % (i, j), (d <= 1) & (d >= -1) if not isinstance(d, int) else -1 <= d <= 1))
        return res


class Rejected(Case):
    prop = 'C19'

    def __init__(self, what, k=3):
        self.what, self.k = what, k
        self.name = 'get_batch:rejects:%s' % what
        self.params = dict(what=what)
        self.functions = ['hydrodiy.io.hyruns.get_batch']

    def modules(self):
        return modules()

    def inputs(self):
        n = SI(z3.Int('nelements'))
        i = SI(z3.Int('ibatch'))
        w = self.what
        if w == 'nelements<1':
            assume(z3.And(n.e >= -5, n.e <= 0, i.e >= 0, i.e < self.k))
        elif w == 'nelements<nbatch':
            assume(z3.And(n.e >= 1, n.e < self.k, i.e >= 0, i.e < self.k))
        elif w == 'ibatch<0':
            assume(z3.And(n.e >= self.k, n.e <= 100, i.e < 0, i.e >= -5))
        else:
            assume(z3.And(n.e >= self.k, n.e <= 100, i.e >= self.k, i.e <= self.k + 5))
        return dict(n=n, i=i)

    def run(self, I):
        from hydrodiy.io import hyruns
        try:
            hyruns.get_batch(I['n'], self.k, I['i'])
        except ValueError:
            return dict(raised=True)
        except core.Unsupported:
            # the call got past the argument checks and reached the numpy layer with a symbolic index
            return dict(raised=False)
        return dict(raised=False)

    def spec(self, I, O, err):
        if err is not None:
            return [('rejected-with-ValueError', isinstance(err, (IndexError,)) and False)]
        return [('rejected-with-ValueError', O['raised'])]


def validate_model(tier):
    """the array_split model against the real numpy (contract of the stub)"""
    out = []
    for n in range(1, 60 if tier == 'quick' else 200):
        for k in range(1, min(n, 16) + 1):
            real = np.array_split(np.arange(n), k)
            model = core.array_split_model(Rng(0, n), k)
            ok = all(len(r) == m.length and (len(r) == 0 or r[0] == m.start) for r, m in zip(real, model))
            if not ok:
                out.append(('array_split-model=numpy', False, dict(n=n, k=k)))
    out.append(('array_split-model=numpy', True, dict(cases='all n < %d, k <= 16' % (60 if tier == 'quick' else 200))))
    # SiteBatch.search: exhaustive on small site lists (no arithmetic core: plain enumeration, stated as such)
    from hydrodiy.io import hyruns
    for n in range(1, 7):
        for order in ('sorted', 'reversed', 'shuffled'):
            sites = ['s%d' % i for i in range(n)]
            if order == 'reversed':
                sites = sites[::-1]
            elif order == 'shuffled':
                sites = [sites[(3 * i + 1) % n] for i in range(n)] if n in (4, 5) else sites[1:] + sites[:1]
            for k in range(1, n + 1):
                try:
                    sb = hyruns.SiteBatch(sites, k)
                    got = [list(sb[i]) for i in range(k)]
                    ok = all(s in sb[sb.search(s)] for s in sites) and sorted(sum(got, [])) == sorted(sites)
                    # the batches are the contiguous slices get_batch assigns, of the list AS GIVEN
                    want = [[sites[j] for j in hyruns.get_batch(n, k, i)] for i in range(k)]
                    okslice = got == want
                except Exception:
                    ok = okslice = False
                out.append(('SiteBatch.search-returns-the-batch-holding-the-site', ok, dict(nsites=n, nbatch=k, order=order)))
                out.append(('SiteBatch-batches-are-slices-of-the-given-list', okslice, dict(nsites=n, nbatch=k, order=order)))
    return out


CONTRACTS = [validate_model]


def cases(tier):
    ks = range(1, 9) if tier == 'quick' else range(1, 17)
    return [Batches(k) for k in ks] + [Rejected(w) for w in ('nelements<1', 'nelements<nbatch', 'ibatch<0', 'ibatch>=nbatch')]


def part_batches(tier, seed, workdir):
    return run_cases('C19', cases(tier), tier, seed)


def part_model(tier, seed, workdir):
    from engine.contracts import run_contracts
    return run_contracts('C19', 'harness.C19', CONTRACTS, tier)


def part_options(tier, seed, workdir):
    from engine.ch import runner
    import harness.ch_C19 as m
    return runner.run_contracts('C19', 'harness.ch_C19', m.CONTRACTS, tier, timeouts={'quick': 30, 'thorough': 150})


FAMILIES = []
PARTS = [part_batches, part_model, part_options]
META = dict(
    explanation='get_batch: the real function is executed with a SYMBOLIC number of elements (up to 1e6) for every batch index of a concrete number of '
                'batches, np.arange / np.array_split replaced by a documented model validated against the real numpy on every run; z3 decides that the '
                'batches are contiguous, ordered, disjoint, cover every element once and differ in size by at most one, and that invalid calls raise. '
                'OptionManager: CrossHair contracts on the real from_cartesian_product / to_dict / from_dict / find with symbolic integer lists',
    bounds=['nbatch 1..8 (thorough 1..16), nelements symbolic in [nbatch, 1e6]; option lists of 1-3 distinct integers, 2-3 options incl. a bare scalar; '
            'find: lists <= 2, values in [-9,12] (reported as inconclusive when CrossHair does not finish)'],
    outside=['option values other than integers', 'JSON file I/O (save/from_file)', 'SiteBatch.search is only enumerated on site lists up to 6 (no arithmetic core)'],
    assumptions=['numpy.array_split: first n % k sections of size n//k+1, the others n//k (validated)'],
    stubs=['np.arange / np.array_split on symbolic sizes: range model'],
)
