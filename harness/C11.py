"""C11 — flow accumulation equals the sum over everything upstream (engine A, XR)."""
from engine.llir.harness import Family, Scalar, Buf
from engine.ops import *
from harness.gridref import *
from harness.C06 import sym_codes, split


def chains(codes, nrows, ncols):
    """pos[k][u]: cell reached from u after k downstream steps (negative once the chain has ended)"""
    n = nrows * ncols
    down = [refdown(u, codes, nrows, ncols) for u in range(n)]
    pos = [list(range(n))]
    for k in range(n):
        cur = []
        for u in range(n):
            p = pos[-1][u]
            nxt = -1
            for v in range(n):
                nxt = iite(p == v, down[v], nxt)
            cur.append(nxt)
        pos.append(cur)
    return down, pos


class Accumulate(Family):
    prop = 'C11'
    name = 'accumulate'
    pkg = 'gis'
    kernel = 'c_accumulate'
    srcfile = 'gis/c_grid.c'
    time_budget = {'quick': 200, 'thorough': 1500}

    def instances(self, tier):
        shapes = [(1, 1), (1, 2), (2, 1), (1, 3), (3, 1), (2, 2)] if tier == 'quick' else \
            [(1, 1), (1, 2), (2, 1), (1, 3), (3, 1), (2, 2), (1, 4), (4, 1), (1, 5), (2, 3)]
        out = [dict(nrows=r, ncols=c, limit=None) for r, c in shapes]
        out = split(out, 4 if tier == 'quick' else 4)
        # reduced cell limit: only termination and return code are required
        out += [dict(nrows=1, ncols=3, limit=1), dict(nrows=1, ncols=3, limit=0), dict(nrows=2, ncols=2, limit=2, fixed={'0': 2})]
        return out

    def cost(self, inst):
        return 6 ** (inst['nrows'] * inst['ncols'] - (1 if inst.get('fixed') else 0))

    def inputs(self, inst, S):
        n = inst['nrows'] * inst['ncols']
        return dict(codes=sym_codes(S, n, inst.get('fixed')), field=[S.real('v%d' % i) for i in range(n)],
                    nodata=S.real('nodata', nan=True), nprint=100)

    def args(self, inst, I):
        n = inst['nrows'] * inst['ncols']
        limit = n if inst['limit'] is None else inst['limit']
        return [Scalar('i64', inst['nrows']), Scalar('i64', inst['ncols']), Scalar('i64', I['nprint']), Scalar('i64', limit),
                Scalar('double', I['nodata']), Buf('flowdircode', 'i64', FLOWDIRCODE), Buf('flowdir', 'i64', I['codes']),
                Buf('to_accumulate', 'double', I['field']), Buf('accumulation', 'double', I['field'], out=True)]

    def spec(self, inst, I, O):
        r, c = inst['nrows'], inst['ncols']
        n = r * c
        codes, field = I['codes'], I['field']
        res = [('field-unchanged', forall(fsame(a, b) for a, b in zip(O['to_accumulate'], field))),
               ('flowdir-unchanged', forall(a == b for a, b in zip(O['flowdir'], codes)))]
        if inst['limit'] is not None:
            res.append(('reduced-limit-terminates', b_or(O['ret'] == 0, O['ret'] > 0) if inst['limit'] >= 1 else O['ret'] > 0))
            return res
        res.append(('ret0', O['ret'] == 0))
        down, pos = chains(codes, r, c)
        acyclic = forall(pos[k][u] != u for u in range(n) for k in range(1, n + 1))
        acc = O['accumulation']
        for cell in range(n):
            drains = down[cell] >= 0
            total = fsum(fite(exists(pos[k][u] == cell for k in range(n + 1)), field[u], 0.0) for u in range(n))
            res.append(('sum-over-upstream[%d]' % cell, b_implies(b_and(acyclic, drains), fsame(acc[cell], total, self.tol))))
            res.append(('terminal=nodata[%d]' % cell, b_implies(b_and(acyclic, b_not(drains)), fsame(acc[cell], I['nodata'], self.tol))))
        return res


def wrapper_accumulate(tier):
    """grid.accumulate: the kernel is called with the default cell limit nrows*ncols, the no-data value of the accumulated grid, the
    accumulation buffer initialised as an independent copy of the field, and the caller's grids keep their cell values"""
    import numpy as np
    from hydrodiy.gis import grid as G
    from engine.contracts import Recorder, patched_module
    out = []
    shapes = [(1, 1), (1, 3), (2, 2), (3, 4), (4, 3), (5, 2)]
    for (nr, nc) in shapes:
        for nodata_fd in (0, -1, 255):
            fd = G.Grid('fd', nc, nr, dtype=np.int64, nodata=nodata_fd)
            codes = (np.arange(nr * nc).reshape(nr, nc) * 7) % 9
            vals = np.array([1, 2, 4, 8, 16, 32, 64, 128, nodata_fd])[codes]
            fd.data = vals
            fld = G.Grid('f', nc, nr, dtype=np.float64, nodata=-9.5)
            fld.data = np.arange(nr * nc, dtype=float).reshape(nr, nc) - 2.5
            fd0, fld0 = fd.data.copy(), fld.data.copy()
            rec = Recorder()
            with patched_module(G, 'c_hydrodiy_gis', rec):
                acc = G.accumulate(fd, fld)
            c = rec.calls[-1]
            tag = dict(nrows=nr, ncols=nc, nodata_flowdir=nodata_fd)
            out.append(('default-cell-limit=nrows*ncols', int(c.args[1]) == nr * nc, dict(tag, got=int(c.args[1]))))
            out.append(('nodata-passed', float(c.args[2]) == -9.5, tag))
            out.append(('flowdir-values-passed', np.array_equal(c.args[4], fd0), tag))
            out.append(('field-passed', np.array_equal(c.args[5], fld0), tag))
            out.append(('accumulation-initialised-as-copy-of-field', np.array_equal(c.args[6], fld0), tag))
            out.append(('accumulation-buffer-not-aliased-with-field', not np.shares_memory(c.raw_args[6], c.raw_args[5]), tag))
            out.append(('caller-flowdir-values-unchanged', np.array_equal(fd.data, fd0), tag))
            out.append(('caller-field-values-unchanged', np.array_equal(fld.data, fld0), tag))
        # what the kernel writes into the accumulation buffer is what the caller gets, also for grids with data bounds
        fldb = G.Grid('f', nc, nr, dtype=np.float64, nodata=-9.0)
        fldb.data = np.full((nr, nc), 2.0)
        fldb.mindata, fldb.maxdata = 0.0, 40.0
        fdb = G.Grid('fd', nc, nr, dtype=np.int64)
        fdb.data = np.full((nr, nc), 4, dtype=np.int64)
        fdb.mindata, fdb.maxdata = 0, 128
        written = np.arange(nr * nc, dtype=float).reshape(nr, nc) * 100.0 - 9.0

        def fill(c, written=written):
            c.raw_args[6][:] = written
            return 0
        for fld_arg in (fldb, None):
            rec = Recorder({'accumulate': fill})
            with patched_module(G, 'c_hydrodiy_gis', rec):
                acc = G.accumulate(fdb, fld_arg) if fld_arg is not None else G.accumulate(fdb)
            out.append(('result-returned-as-computed', np.array_equal(acc.data, written), dict(nrows=nr, ncols=nc, default_field=fld_arg is None,
                                                                                               got=acc.data.ravel().tolist()[:4])))
        # a field stored in a narrow type: the kernel works on (and the caller gets) float64, sums that do not fit the field's type included
        for dt in (np.int16, np.uint8, np.float32):
            fldn = G.Grid('f', nc, nr, dtype=dt)
            fldn.data = np.full((nr, nc), 3, dtype=dt)
            big = np.arange(nr * nc, dtype=float).reshape(nr, nc) * 1000.0 + 35000.25

            def fillbig(c, big=big):
                c.raw_args[6][:] = big
                return 0
            rec = Recorder({'accumulate': fillbig})
            with patched_module(G, 'c_hydrodiy_gis', rec):
                acc = G.accumulate(fdb, fldn)
            c = rec.calls[-1]
            out.append(('narrow-field-accumulated-in-float64', c.args[5].dtype == np.float64 and c.args[6].dtype == np.float64 and np.array_equal(acc.data, big)
                        and bool(np.all(fldn._data == 3)), dict(nrows=nr, ncols=nc, dtype=str(np.dtype(dt)), got=acc.data.ravel().tolist()[:2])))
        # explicit limit is passed through
        rec = Recorder()
        fd = G.Grid('fd', nc, nr, dtype=np.int64)
        with patched_module(G, 'c_hydrodiy_gis', rec):
            G.accumulate(fd, max_accumulated_cells=3)
        out.append(('explicit-cell-limit-passed', int(rec.calls[-1].args[1]) == 3, dict(nrows=nr, ncols=nc)))
        out.append(('default-field-is-unit', np.array_equal(rec.calls[-1].args[5], np.ones((nr, nc))), dict(nrows=nr, ncols=nc)))
    return out


CONTRACTS = [wrapper_accumulate]


def contracts_part(tier, seed, workdir):
    from engine.contracts import run_contracts
    return run_contracts('C11', 'harness.C11', CONTRACTS, tier)


FAMILIES = [Accumulate()]
PARTS = [contracts_part]

META = dict(
    explanation='bounded symbolic execution of the LLVM IR of c_accumulate (with c_downstream, c_neighbours) on small grids with symbolic '
                'flow codes AND a symbolic accumulated field; every feasible path is compared with a bounded-reachability sum over the same codes',
    bounds=['grids 1x1,1x2,2x1,1x3,3x1,2x2 (quick) + 1x4,4x1,1x5,2x3 (thorough); codes from {8 ESRI, 0, one invalid}; field values any finite real; '
            'no-data value any real or NaN; default cell limit; nprint 100; reduced limits 0,1,2 for termination only'],
    outside=['grids beyond the bound', 'rounding (exact reals)', 'nprint = 0 (integer division by zero: C05)'],
    assumptions=['accumulation initialised as a copy of the field (grid.accumulate does this)'],
    stubs=['fprintf: no effect'],
)
