"""Operations usable both on symbolic (z3 / XR) and concrete (int / float) values, so that a
specification is written once and evaluated symbolically (assertion) and concretely (replay oracle)."""
import z3
from engine.llir.xr import (XR, b_and, b_or, b_not, b_ite, b_eq, b_implies, fadd, fsub, fmul, fdiv, fneg, fabs_,
                            fisnan, fisfinite, flt, fle, fgt, fge, feq, fite, fsame, fmin, fmax, lift, is_conc)


def iite(c, a, b):
    """integer if-then-else"""
    if isinstance(c, bool):
        return a if c else b
    return z3.If(c, a, b)


def isum(xs):
    r = 0
    for x in xs:
        r = r + x
    return r


def fsum(xs):
    r = 0.0
    for x in xs:
        r = fadd(r, x)
    return r


def count(conds):
    return isum(iite(c, 1, 0) for c in conds)


def exists(conds):
    return b_or(*list(conds))


def forall(conds):
    return b_and(*list(conds))


def ieq(a, b):
    r = (a == b)
    return r if isinstance(r, bool) else r


def is_true(c):
    return c is True


def zbool(b):
    """kept for readability in specs: conditions may be python bools (concrete oracle) or z3 terms"""
    return b


def tor(x):
    """integer / real term -> double domain value (symbolic terms are lifted, python numbers stay concrete)"""
    import z3 as _z3
    if _z3.is_expr(x):
        return lift(x)
    return x
