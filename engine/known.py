"""known_findings.json access (read only; never written at run time)"""
import json
import os

PATH = os.path.normpath(os.path.join(os.path.dirname(__file__), '..', 'known_findings.json'))


def load_all():
    try:
        data = json.load(open(PATH))
    except FileNotFoundError:
        return {}
    return {e['id']: e for e in data.get('findings', [])}


def active(prop):
    return {k: e for k, e in load_all().items() if e.get('property') == prop and e.get('status') == 'known'}
