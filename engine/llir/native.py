"""Real build of the kernels for replay: one sanitised driver binary per package, generated from the
function signatures found in the IR.  The driver reads one call description on stdin, allocates every
buffer on the heap with its exact size (so AddressSanitizer sees any access outside it), calls the real
kernel and prints the return value and all buffers.  A sanitizer report or fatal signal confirms a
memory-safety candidate; the printed outputs are judged by the concrete oracle for functional ones."""
import os
import subprocess
import math

CT = {'i32': 'int', 'i64': 'long long', 'double': 'double'}


def c_type(t):
    if t in CT:
        return CT[t]
    if t.endswith('*'):
        base = t[:-1]
        if base in CT:
            return CT[base] + '*'
        if base == '[2 x double]':
            return 'double (*)[2]'
        if base == '[9 x i64]':
            return 'long long (*)[9]'
    return None


def gen_driver(mod):
    """C source of the dispatcher for all externally visible kernels with plain signatures"""
    protos, cases = [], []
    for name, f in sorted(mod.funcs.items()):
        if f.internal:
            continue
        cts = [c_type(t) for t in f.ptypes]
        rt = CT.get(f.rettype, 'void' if f.rettype == 'void' else None)
        if rt is None or any(c is None for c in cts):
            continue
        decl = []
        for i, c in enumerate(cts):
            decl.append(c.replace('(*)', '(*a%d)' % i) if '(*)' in c else '%s a%d' % (c, i))
        protos.append('extern %s %s(%s);' % (rt, name, ', '.join(decl) or 'void'))
        args = []
        for i, (t, c) in enumerate(zip(f.ptypes, cts)):
            if t.endswith('*'):
                args.append('(%s)A[%d].p' % (c, i))
            elif t == 'double':
                args.append('A[%d].d' % i)
            else:
                args.append('(%s)A[%d].i' % (c, i))
        call = '%s(%s)' % (name, ', '.join(args))
        if rt == 'void':
            body = '%s; printf("ret void\\n");' % call
        elif rt == 'double':
            body = 'double r = %s; printf("ret %%a\\n", r);' % call
        else:
            body = 'long long r = (long long)%s; printf("ret %%lld\\n", r);' % call
        cases.append('  if(!strcmp(fname,"%s")){ if(na!=%d){fprintf(stderr,"arity\\n");return 3;} %s done=1; }' % (name, len(cts), body))
    src = r'''
#include <stdio.h>
#include <stdlib.h>
#include <string.h>
typedef struct { char kind; char ty; long long i; double d; void* p; long long n; } arg_t;
%s
int main(void){
  char fname[256]; static arg_t A[64]; int na=0; char tok[64], ty[64];
  if(scanf("%%255s", fname)!=1) return 3;
  while(scanf("%%63s", tok)==1){
    if(!strcmp(tok,"end")) break;
    arg_t* a=&A[na++]; a->kind=tok[0];
    if(scanf("%%63s", ty)!=1) return 3;
    a->ty = ty[0];  /* i=int32 l=int64 d=double */
    if(tok[0]=='s'){
      char v[128]; if(scanf("%%127s", v)!=1) return 3;
      if(ty[0]=='d') a->d=strtod(v,NULL); else a->i=strtoll(v,NULL,10);
    } else {
      long long n; if(scanf("%%lld",&n)!=1) return 3; a->n=n;
      size_t es = ty[0]=='i'?4:8;
      a->p = malloc(n*es);
      for(long long k=0;k<n;k++){ char v[128]; if(scanf("%%127s", v)!=1) return 3;
        if(ty[0]=='d') ((double*)a->p)[k]=strtod(v,NULL);
        else if(ty[0]=='i') ((int*)a->p)[k]=(int)strtoll(v,NULL,10);
        else ((long long*)a->p)[k]=strtoll(v,NULL,10); }
    }
  }
  int done=0;
%s
  if(!done){ fprintf(stderr,"unknown function %%s\n", fname); return 3; }
  for(int k=0;k<na;k++) if(A[k].kind=='b'){
    printf("buf %%d", k);
    for(long long j=0;j<A[k].n;j++){
      if(A[k].ty=='d') printf(" %%a", ((double*)A[k].p)[j]);
      else if(A[k].ty=='i') printf(" %%d", ((int*)A[k].p)[j]);
      else printf(" %%lld", ((long long*)A[k].p)[j]); }
    printf("\n"); }
  fflush(stdout);
  return 0;
}
''' % ('\n'.join(protos), '\n'.join(cases))
    return src


def build_driver(mod, cfiles, outdir, tag, sanitize=True):
    src = os.path.join(outdir, 'driver_%s.c' % tag)
    exe = os.path.join(outdir, 'driver_%s' % tag)
    with open(src, 'w') as fh:
        fh.write(gen_driver(mod))
    flags = ['-O1', '-g', '-w', '-ffp-contract=off', '-fno-omit-frame-pointer']
    if sanitize:
        flags += ['-fsanitize=address,undefined,float-cast-overflow', '-fno-sanitize-recover=all']
    incs = []
    for d in sorted({os.path.dirname(c) for c in cfiles}):
        incs += ['-I', d]
    # `compare` etc. are static per file; external helper names are unique per package
    r = subprocess.run(['clang'] + flags + incs + [src] + list(cfiles) + ['-lm', '-o', exe], capture_output=True, text=True)
    if r.returncode != 0:
        raise RuntimeError('native build failed:\n' + r.stderr[-3000:])
    return exe


def fmt_double(x):
    x = float(x)
    if math.isnan(x):
        return 'nan'
    if math.isinf(x):
        return 'inf' if x > 0 else '-inf'
    return x.hex()


TY = {'i32': 'i', 'i64': 'l', 'double': 'd'}


def call_text(fname, args):
    """args: list of ('s', ty, value) / ('b', ty, [values])"""
    out = [fname]
    for a in args:
        if a[0] == 's':
            out.append('s %s %s' % (TY[a[1]], fmt_double(a[2]) if a[1] == 'double' else int(a[2])))
        else:
            vals = a[2]
            out.append('b %s %d %s' % (TY[a[1]], len(vals), ' '.join(
                fmt_double(v) if a[1] == 'double' else str(int(v)) for v in vals)))
    out.append('end')
    return '\n'.join(out) + '\n'


def parse_val(s):
    if 'x' in s or s in ('nan', '-nan', 'inf', '-inf') or 'p' in s:
        if s in ('nan', '-nan'):
            return math.nan
        if s == 'inf':
            return math.inf
        if s == '-inf':
            return -math.inf
        return float.fromhex(s)
    return int(s)


def run_driver(exe, text, timeout=20):
    """returns dict(status='ok'|'sanitizer'|'signal'|'timeout'|'error', ret=..., bufs={argindex: [...]}, report=str)"""
    env = dict(os.environ)
    env['ASAN_OPTIONS'] = 'detect_leaks=0:abort_on_error=0:exitcode=99:allocator_may_return_null=1'
    env['UBSAN_OPTIONS'] = 'print_stacktrace=0:halt_on_error=1:exitcode=98'
    try:
        r = subprocess.run([exe], input=text, capture_output=True, text=True, timeout=timeout, env=env)
    except subprocess.TimeoutExpired:
        return {'status': 'timeout', 'report': 'timeout after %ss' % timeout}
    out = {'ret': None, 'bufs': {}, 'report': r.stderr[-1500:]}
    for ln in r.stdout.split('\n'):
        p = ln.split()
        if not p:
            continue
        if p[0] == 'ret':
            out['ret'] = None if p[1] == 'void' else parse_val(p[1])
        elif p[0] == 'buf':
            out['bufs'][int(p[1])] = [parse_val(x) for x in p[2:]]
    if r.returncode == 0:
        out['status'] = 'ok'
    elif r.returncode < 0:
        out['status'] = 'signal'
        out['report'] = 'killed by signal %d\n' % (-r.returncode) + out['report']
    elif 'AddressSanitizer' in r.stderr or 'runtime error' in r.stderr or r.returncode in (98, 99):
        out['status'] = 'sanitizer'
    else:
        out['status'] = 'error'
    return out
