"""Domain of C `double` values for the IR interpreter.

A double is either a concrete Python float (bit-exact IEEE arithmetic by the host) or an `XR`:
three kind flags (NaN, +inf, -inf; each a Python bool or a z3 Bool) and a finite value kept as a
rational function num/den of z3 Real terms (den is None for 1).  Arithmetic on XR is *exact real*
arithmetic with the IEEE special-value tables; rounding is not modelled in this domain (XRε adds a
(1+δ) factor per operation, see `Eps`).  Signed zeros are not modelled.

The same helper functions (fadd, flt, fisnan, ...) accept floats, Fractions and XR so that a
specification written once can be evaluated symbolically and concretely.
"""
import math
from fractions import Fraction
import z3

# ------------------------------------------------------------ boolean helpers folding python bools


def is_sym(b):
    return not isinstance(b, bool)


def b_not(a):
    if isinstance(a, bool):
        return not a
    return z3.Not(a)


def b_and(*xs):
    out = []
    for x in xs:
        if isinstance(x, bool):
            if not x:
                return False
        else:
            out.append(x)
    if not out:
        return True
    if len(out) == 1:
        return out[0]
    return z3.And(*out)


def b_or(*xs):
    out = []
    for x in xs:
        if isinstance(x, bool):
            if x:
                return True
        else:
            out.append(x)
    if not out:
        return False
    if len(out) == 1:
        return out[0]
    return z3.Or(*out)


def b_ite(c, a, b):
    if isinstance(c, bool):
        return a if c else b
    if isinstance(a, bool) and isinstance(b, bool):
        if a == b:
            return a
        return c if a else z3.Not(c)
    if isinstance(a, bool):
        return b_or(c, b) if a else b_and(z3.Not(c), b)
    if isinstance(b, bool):
        return b_or(z3.Not(c), a) if b else b_and(c, a)
    return z3.If(c, a, b)


def b_eq(a, b):
    if isinstance(a, bool) and isinstance(b, bool):
        return a == b
    if isinstance(a, bool):
        return b if a else b_not(b)
    if isinstance(b, bool):
        return a if b else b_not(a)
    return a == b


def b_implies(a, b):
    return b_or(b_not(a), b)


def zbool(b):
    return z3.BoolVal(b) if isinstance(b, bool) else b


# ------------------------------------------------------------ reals


def rv(x):
    """python number -> z3 Real value (exact)"""
    if isinstance(x, float):
        f = Fraction(x)
        return z3.RealVal(str(f)) if f.denominator != 1 else z3.RealVal(f.numerator)
    if isinstance(x, Fraction):
        return z3.RealVal(str(x))
    if isinstance(x, int):
        return z3.RealVal(x)
    return x


class Eps:
    """rounding model: when active every rounded operation result is multiplied by (1+d), |d|<=2^-53"""
    active = False
    counter = 0
    constraints = []
    U = Fraction(1, 2 ** 53)

    @classmethod
    def reset(cls, active):
        cls.active = active
        cls.counter = 0
        cls.constraints = []

    @classmethod
    def round(cls, term):
        if not cls.active:
            return term
        cls.counter += 1
        d = z3.Real('__d%d' % cls.counter)
        cls.constraints.append(z3.And(d >= -rv(cls.U), d <= rv(cls.U)))
        return term * (1 + d)


class XR:
    __slots__ = ('nan', 'pinf', 'ninf', 'num', 'den')

    def __init__(self, num, den=None, nan=False, pinf=False, ninf=False):
        self.num, self.den, self.nan, self.pinf, self.ninf = num, den, nan, pinf, ninf

    @property
    def special(self):
        return not (self.nan is False and self.pinf is False and self.ninf is False)

    @property
    def val(self):
        return self.num if self.den is None else self.num / self.den

    def fin(self):
        return b_not(b_or(self.nan, self.pinf, self.ninf))

    def __repr__(self):
        return 'XR(%s%s%s)' % (self.val, '' if self.nan is False else ',nan=%s' % self.nan,
                               '' if (self.pinf is False and self.ninf is False) else ',inf=%s/%s' % (self.pinf, self.ninf))


def sym_double(name, nan=False, inf=False):
    """fresh symbolic double; nan/inf: False (finite only) or True (kind symbolic)"""
    x = XR(z3.Real(name))
    if nan:
        x.nan = z3.Bool(name + '__nan')
    if inf:
        x.pinf = z3.Bool(name + '__pinf')
        x.ninf = z3.Bool(name + '__ninf')
    return x


def kind_constraints(x):
    """well-formedness: at most one kind flag set"""
    cs = []
    if is_sym(x.nan) or is_sym(x.pinf) or is_sym(x.ninf):
        cs.append(b_not(b_and(x.nan, x.pinf)))
        cs.append(b_not(b_and(x.nan, x.ninf)))
        cs.append(b_not(b_and(x.pinf, x.ninf)))
    return [c for c in cs if c is not True]


def lift(a):
    if isinstance(a, XR):
        return a
    if isinstance(a, (int, Fraction)) and not isinstance(a, bool):
        return XR(rv(a))
    if isinstance(a, float):
        if math.isnan(a):
            return XR(z3.RealVal(0), nan=True)
        if math.isinf(a):
            return XR(z3.RealVal(0), pinf=a > 0, ninf=a < 0)
        return XR(rv(a))
    if z3.is_expr(a):
        return XR(z3.ToReal(a) if a.sort() == z3.IntSort() else a)
    raise TypeError('lift %r' % (a,))


def is_conc(a):
    return isinstance(a, (float, int, Fraction)) and not isinstance(a, bool)


# comparisons of the finite parts (rational functions)
def _cmp_fin(op, a, b):
    an, ad, bn, bd = a.num, a.den, b.num, b.den
    if ad is None and bd is None:
        l, r = an, bn
        return {'lt': l < r, 'le': l <= r, 'gt': l > r, 'ge': l >= r, 'eq': l == r, 'ne': l != r}[op]
    # a = an/ad, b = bn/bd  ->  compare an*bd with bn*ad, flipping when ad*bd < 0
    l = an * (bd if bd is not None else 1)
    r = bn * (ad if ad is not None else 1)
    dd = ad if bd is None else (bd if ad is None else ad * bd)
    if op == 'eq':
        return l == r
    if op == 'ne':
        return l != r
    pos = {'lt': l < r, 'le': l <= r, 'gt': l > r, 'ge': l >= r}[op]
    neg = {'lt': l > r, 'le': l >= r, 'gt': l < r, 'ge': l <= r}[op]
    return z3.If(dd > 0, pos, neg)


def _sign_pos(a):  # finite value > 0
    return _cmp_fin('gt', a, XR(z3.RealVal(0)))


def _sign_neg(a):
    return _cmp_fin('lt', a, XR(z3.RealVal(0)))


def _is_zero(a):
    return a.num == 0


# ------------------------------------------------------------ arithmetic


def _conc(op, a, b):
    a = float(a)
    b = float(b)
    if op == 'add':
        return a + b
    if op == 'sub':
        return a - b
    if op == 'mul':
        return a * b
    if op == 'div':
        if b == 0.0:
            if a == 0.0 or math.isnan(a):
                return math.nan
            neg = (math.copysign(1, a) < 0) != (math.copysign(1, b) < 0)
            return -math.inf if neg else math.inf
        return a / b
    raise ValueError(op)


def _frac(op, a, b):
    if op == 'add':
        return a + b
    if op == 'sub':
        return a - b
    if op == 'mul':
        return a * b
    if op == 'div':
        return Fraction(a) / Fraction(b) if b != 0 else (math.nan if a == 0 else (math.inf if a > 0 else -math.inf))


def farith(op, a, b):
    if isinstance(a, Fraction) or isinstance(b, Fraction):
        if is_conc(a) and is_conc(b):
            if isinstance(a, float) and not math.isfinite(a) or isinstance(b, float) and not math.isfinite(b):
                return _conc(op, a, b)
            return _frac(op, Fraction(a), Fraction(b))
    if isinstance(a, (float, int)) and isinstance(b, (float, int)):
        return _conc(op, a, b)
    a = lift(a)
    b = lift(b)
    if op == 'sub':
        return farith('add', a, fneg(b))
    if not a.special and not b.special:
        if op == 'add':
            if a.den is None and b.den is None:
                return XR(Eps.round(a.num + b.num))
            ad = a.den if a.den is not None else z3.RealVal(1)
            bd = b.den if b.den is not None else z3.RealVal(1)
            return XR(Eps.round(a.num * bd + b.num * ad), ad * bd)
        if op == 'mul':
            den = None if (a.den is None and b.den is None) else (
                a.den if b.den is None else (b.den if a.den is None else a.den * b.den))
            return XR(Eps.round(a.num * b.num), den)
        if op == 'div':
            # b finite: b == 0 -> inf / nan
            bz = _is_zero(b)
            bzs = z3.simplify(bz)
            if z3.is_false(bzs):
                # concrete non-zero divisor
                if b.den is None and z3.is_rational_value(z3.simplify(b.num)):
                    return XR(Eps.round(a.num / b.num), a.den)
            num = a.num * (b.den if b.den is not None else 1)
            den = b.num * (a.den if a.den is not None else 1)
            if z3.is_true(bzs):
                az = z3.simplify(_is_zero(a))
                if z3.is_true(az):
                    return XR(z3.RealVal(0), nan=True)
                if z3.is_false(az):
                    p = z3.simplify(_sign_pos(a))
                    if z3.is_true(p):
                        return XR(z3.RealVal(0), pinf=True)
                    if z3.is_false(p):
                        return XR(z3.RealVal(0), ninf=True)
                return XR(z3.RealVal(0), nan=_is_zero(a), pinf=_sign_pos(a), ninf=_sign_neg(a))
            if z3.is_false(bzs):
                return XR(Eps.round(num), den)
            az = _is_zero(a)
            return XR(Eps.round(num), den, nan=b_and(bz, az), pinf=b_and(bz, _sign_pos(a)),
                      ninf=b_and(bz, _sign_neg(a)))
    # general tables with kind flags
    af, bf = a.fin(), b.fin()
    ainf, binf = b_or(a.pinf, a.ninf), b_or(b.pinf, b.ninf)
    if op == 'add':
        nan = b_or(a.nan, b.nan, b_and(a.pinf, b.ninf), b_and(a.ninf, b.pinf))
        pinf = b_and(b_not(nan), b_or(a.pinf, b.pinf))
        ninf = b_and(b_not(nan), b_or(a.ninf, b.ninf))
        fa, fb = XR(a.num, a.den), XR(b.num, b.den)
        r = farith('add', fa, fb)
        return XR(r.num, r.den, nan=nan, pinf=pinf, ninf=ninf)
    apos = b_or(a.pinf, b_and(af, _sign_pos(a)))
    aneg = b_or(a.ninf, b_and(af, _sign_neg(a)))
    bpos = b_or(b.pinf, b_and(bf, _sign_pos(b)))
    bneg = b_or(b.ninf, b_and(bf, _sign_neg(b)))
    az = b_and(af, _is_zero(a))
    bz = b_and(bf, _is_zero(b))
    samesign = b_or(b_and(apos, bpos), b_and(aneg, bneg))
    diffsign = b_or(b_and(apos, bneg), b_and(aneg, bpos))
    if op == 'mul':
        nan = b_or(a.nan, b.nan, b_and(ainf, bz), b_and(binf, az))
        isinf = b_and(b_not(nan), b_or(ainf, binf))
        r = farith('mul', XR(a.num, a.den), XR(b.num, b.den))
        return XR(r.num, r.den, nan=nan, pinf=b_and(isinf, samesign), ninf=b_and(isinf, diffsign))
    if op == 'div':
        nan = b_or(a.nan, b.nan, b_and(ainf, binf), b_and(az, bz))
        # infinite: a inf & b finite ; a finite nonzero & b zero
        isinf = b_and(b_not(nan), b_or(b_and(ainf, bf), b_and(af, b_not(az), bz)))
        # sign when b == 0: sign of a (+0 assumed)
        pinf = b_and(isinf, b_or(b_and(bz, apos), b_and(b_not(bz), samesign)))
        ninf = b_and(isinf, b_or(b_and(bz, aneg), b_and(b_not(bz), diffsign)))
        # finite / inf = 0
        tozero = b_and(af, binf)
        num = a.num * (b.den if b.den is not None else 1)
        den = b.num * (a.den if a.den is not None else 1)
        if tozero is not False:
            num = z3.If(zbool(tozero), z3.RealVal(0), num)
            den = z3.If(zbool(tozero), z3.RealVal(1), den)
        return XR(Eps.round(num), den, nan=nan, pinf=pinf, ninf=ninf)
    raise ValueError(op)


def fadd(a, b):
    return farith('add', a, b)


def fsub(a, b):
    return farith('sub', a, b)


def fmul(a, b):
    return farith('mul', a, b)


def fdiv(a, b):
    return farith('div', a, b)


def fneg(a):
    if is_conc(a):
        return -a
    return XR(-a.num, a.den, a.nan, a.ninf, a.pinf)


def fabs_(a):
    if is_conc(a):
        return abs(a)
    n = z3.If(a.num >= 0, a.num, -a.num)
    d = None if a.den is None else z3.If(a.den >= 0, a.den, -a.den)
    return XR(n, d, a.nan, b_or(a.pinf, a.ninf), False)


def fisnan(a):
    if is_conc(a):
        return isinstance(a, float) and math.isnan(a)
    return a.nan


def fisfinite(a):
    if is_conc(a):
        return not (isinstance(a, float) and not math.isfinite(a))
    return a.fin()


def fcmp(op, a, b):
    """ordered comparison (false when either is NaN); op in lt le gt ge eq; 'ne' is the *unordered* une"""
    if is_conc(a) and is_conc(b):
        if fisnan(a) or fisnan(b):
            return op == 'ne'
        return {'lt': a < b, 'le': a <= b, 'gt': a > b, 'ge': a >= b, 'eq': a == b, 'ne': a != b}[op]
    a = lift(a)
    b = lift(b)
    if not a.special and not b.special:
        return _cmp_fin(op, a, b)
    un = b_or(a.nan, b.nan)
    af, bf = a.fin(), b.fin()
    ff = b_and(af, bf)
    finrel = _cmp_fin(op, XR(a.num, a.den), XR(b.num, b.den))
    lt = b_or(b_and(a.ninf, b_not(b.ninf)), b_and(b.pinf, b_not(a.pinf)), b_and(ff, _cmp_fin('lt', a, b)))
    gt = b_or(b_and(a.pinf, b_not(b.pinf)), b_and(b.ninf, b_not(a.ninf)), b_and(ff, _cmp_fin('gt', a, b)))
    eq = b_or(b_and(a.pinf, b.pinf), b_and(a.ninf, b.ninf), b_and(ff, _cmp_fin('eq', a, b)))
    if op == 'lt':
        r = lt
    elif op == 'gt':
        r = gt
    elif op == 'eq':
        r = eq
    elif op == 'le':
        r = b_or(lt, eq)
    elif op == 'ge':
        r = b_or(gt, eq)
    elif op == 'ne':
        return b_or(un, b_not(eq))
    return b_and(b_not(un), r)


def flt(a, b):
    return fcmp('lt', a, b)


def fle(a, b):
    return fcmp('le', a, b)


def fgt(a, b):
    return fcmp('gt', a, b)


def fge(a, b):
    return fcmp('ge', a, b)


def feq(a, b):
    return fcmp('eq', a, b)


def fite(c, a, b):
    """if-then-else on doubles"""
    if isinstance(c, bool):
        return a if c else b
    a = lift(a)
    b = lift(b)
    if a.den is None and b.den is None:
        num, den = z3.If(c, a.num, b.num), None
    else:
        num = z3.If(c, a.num, b.num)
        den = z3.If(c, a.den if a.den is not None else z3.RealVal(1), b.den if b.den is not None else z3.RealVal(1))
    return XR(num, den, b_ite(c, a.nan, b.nan), b_ite(c, a.pinf, b.pinf), b_ite(c, a.ninf, b.ninf))


def fsame(a, b, tol=0.0, stol=0.0):
    """specification equality of two doubles: both NaN, or same infinity, or equal finite values.
    Concretely a relative/absolute tolerance `tol` is allowed (rounding of the real kernel); symbolically the
    comparison is exact unless `stol` > 0 (used where a path folds concrete float arithmetic, which rounds)."""
    if is_conc(a) and is_conc(b):
        if fisnan(a) or fisnan(b):
            return fisnan(a) and fisnan(b)
        if not fisfinite(a) or not fisfinite(b):
            return a == b
        return abs(a - b) <= tol * max(1.0, abs(a), abs(b))
    a = lift(a)
    b = lift(b)
    if stol > 0 and a.den is None and b.den is None:
        t = rv(Fraction(stol)) * (1 + z3.If(a.num >= 0, a.num, -a.num))
        close = z3.And(a.num - b.num <= t, b.num - a.num <= t)
    else:
        close = _cmp_fin('eq', a, b)
    return b_and(b_eq(a.nan, b.nan), b_eq(a.pinf, b.pinf), b_eq(a.ninf, b.ninf),
                 b_implies(b_and(a.fin(), b.fin()), close))


def fmin(a, b):
    """C fmin / llvm.minnum: NaN is treated as missing"""
    if is_conc(a) and is_conc(b):
        if fisnan(a):
            return b
        if fisnan(b):
            return a
        return min(a, b)
    a = lift(a)
    b = lift(b)
    return fite(zbool(b_or(b.nan, b_and(b_not(a.nan), fcmp('le', a, b)))), a, b)


def fmax(a, b):
    if is_conc(a) and is_conc(b):
        if fisnan(a):
            return b
        if fisnan(b):
            return a
        return max(a, b)
    a = lift(a)
    b = lift(b)
    return fite(zbool(b_or(b.nan, b_and(b_not(a.nan), fcmp('ge', a, b)))), a, b)


# ------------------------------------------------------------ model evaluation


def frac_of(model, term):
    v = model.eval(term, model_completion=True)
    if z3.is_int_value(v):
        return Fraction(v.as_long())
    if z3.is_rational_value(v):
        return Fraction(v.numerator_as_long(), v.denominator_as_long())
    if z3.is_algebraic_value(v):
        return Fraction(v.approx(30).numerator_as_long(), v.approx(30).denominator_as_long())
    raise ValueError('cannot evaluate %s -> %s' % (term, v))


def bool_of(model, b):
    if isinstance(b, bool):
        return b
    return z3.is_true(model.eval(b, model_completion=True))


def float_of(model, x):
    """concrete float of an XR (or python number) under a model"""
    if is_conc(x):
        return float(x)
    if bool_of(model, x.nan):
        return math.nan
    if bool_of(model, x.pinf):
        return math.inf
    if bool_of(model, x.ninf):
        return -math.inf
    n = frac_of(model, x.num)
    d = frac_of(model, x.den) if x.den is not None else Fraction(1)
    if d == 0:
        return math.nan
    return float(n / d)
