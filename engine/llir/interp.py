"""Path-based bounded symbolic interpreter for the kernels' LLVM IR (engine A, see DESIGN.md 2.1).

Values at run time
  integers  : python int (concrete) or z3 Int term (mathematical integers + overflow obligations)
  i1        : python bool or z3 Bool term
  doubles   : python float (concrete, bit exact) or xr.XR (kinds + exact reals)
  pointers  : Ptr(obj, element offset) / None (NULL) / FnRef(name)
All-concrete inputs make the interpreter a plain IR emulator, which is how it is validated
against the natively compiled kernels on every run (translator validation).
"""
import math
import threading
import time
from fractions import Fraction
import z3
from . import xr
from .xr import XR, b_and, b_or, b_not
from .parse import sizeof, scalar_of, Unsupported

INT_RANGE = {'i1': (0, 1), 'i8': (-2 ** 7, 2 ** 7 - 1), 'i16': (-2 ** 15, 2 ** 15 - 1),
             'i32': (-2 ** 31, 2 ** 31 - 1), 'i64': (-2 ** 63, 2 ** 63 - 1)}


class BoundExceeded(Exception):
    pass


class Runaway(BoundExceeded):
    """the path keeps accessing memory outside its objects (e.g. a scan loop that ran off a buffer): stop following it"""
    pass


class _FragmentStop(Exception):
    pass


class Ptr:
    __slots__ = ('obj', 'off')

    def __init__(self, obj, off):
        self.obj, self.off = obj, off

    def __repr__(self):
        return 'Ptr(%s+%s)' % (self.obj.name, self.off)


class FnRef:
    __slots__ = ('name',)

    def __init__(self, name):
        self.name = name


class Obj:
    """a memory object: cells of one scalar element type"""
    __slots__ = ('name', 'elty', 'elsize', 'cells', 'alive', 'kind', 'nbytes', 'written')

    def __init__(self, name, elty, cells, kind='arg', nbytes=None):
        self.name, self.elty, self.cells, self.kind = name, elty, cells, kind
        self.elsize = sizeof(elty) if elty else None
        self.alive = True
        self.nbytes = nbytes
        self.written = False


class Viol:
    __slots__ = ('kind', 'cond', 'func', 'line', 'var', 'detail')

    def __init__(self, kind, cond, func, line, var, detail=''):
        self.kind, self.cond, self.func, self.line, self.var, self.detail = kind, cond, func, line, var, detail

    def key(self):
        return '%s:%s:%s' % (self.func, self.kind, self.var)

    def __repr__(self):
        return 'Viol(%s %s line %s %s %s)' % (self.kind, self.func, self.line, self.var, self.detail)


class Path:
    def __init__(self, dec=(), model=None):
        self.pc = []          # list of z3 Bool (assumptions + decisions)
        self.dec = list(dec)  # decisions taken (bool)
        self.alt = [None] * len(self.dec)  # model witnessing the other side of decision i (None: infeasible/explored)
        self.pos = 0
        self.model = model    # a model of pc once the prefix has been replayed
        self.nprefix = len(self.dec)
        self.viols = []
        self.steps = 0
        self.uninit = []      # names of fresh variables standing for uninitialised reads
        self.unknown = 0
        self.fresh = 0
        self.notes = []
        self.subst = []       # (variable, numeral) pairs implied by equality decisions on this path

    def learn(self, c):
        """record `var == numeral` facts so that later conditions over the same variable fold without a query"""
        if z3.is_eq(c):
            a, b = c.arg(0), c.arg(1)
            if z3.is_const(b) and b.decl().kind() == z3.Z3_OP_UNINTERPRETED and (z3.is_int_value(a) or z3.is_rational_value(a)):
                a, b = b, a
            if z3.is_const(a) and a.decl().kind() == z3.Z3_OP_UNINTERPRETED and (z3.is_int_value(b) or z3.is_rational_value(b)):
                self.subst.append((a, b))

    def assume(self, c):
        if isinstance(c, bool):
            if not c:
                raise ValueError('assume(False)')
            return
        self.pc.append(c)
        if self.pos >= self.nprefix:
            self.model = None


class Stats:
    def __init__(self):
        self.queries = 0
        self.solver_time = 0.0
        self.cache_hits = 0
        self.unknown = 0


def cross_check(samples, workdir, timeout_s=20):
    """re-run sampled queries through the system z3 binary (4.8.12, a different build from the 5.1 wheel the engines use);
    returns (checked, agreed, disagreements)"""
    import os
    import subprocess
    import tempfile
    checked = agreed = 0
    bad = []
    for smt2, res in samples:
        fd, path = tempfile.mkstemp(suffix='.smt2', dir=workdir)
        with os.fdopen(fd, 'w') as fh:
            fh.write(smt2)
        try:
            r = subprocess.run(['/usr/bin/z3', '-T:%d' % timeout_s, path], capture_output=True, text=True, timeout=timeout_s + 10)
            out = r.stdout.strip().split('\n')[0] if r.stdout.strip() else ''
        except (subprocess.TimeoutExpired, FileNotFoundError):
            out = 'timeout'
        finally:
            os.unlink(path)
        if '(error' in r.stdout if out != 'timeout' else False:
            continue            # the older solver could not parse the query: inconclusive, not a disagreement
        if out in ('sat', 'unsat'):
            checked += 1
            if out == res:
                agreed += 1
            else:
                bad.append({'engine_result': res, 'z3_4_8_12': out, 'query_head': smt2[:300]})
    return checked, agreed, bad


def is_concrete_int(v):
    return isinstance(v, int) and not isinstance(v, bool)


def to_conc_int(v):
    """z3 numeral -> python int when possible"""
    if isinstance(v, (int, bool)):
        return v
    if z3.is_int_value(v):
        return v.as_long()
    return v


def c_div(a, b):
    q = abs(a) // abs(b)
    return q if (a >= 0) == (b >= 0) else -q


def z_trunc_div(a, b):
    """C truncating division on z3 Ints"""
    a = z3.IntVal(a) if isinstance(a, int) else a
    b = z3.IntVal(b) if isinstance(b, int) else b
    if isinstance(b, z3.IntNumRef) and b.as_long() > 0:
        return z3.If(a >= 0, a / b, -((-a) / b))
    aa = z3.If(a >= 0, a, -a)
    bb = z3.If(b >= 0, b, -b)
    q = aa / bb
    return z3.If((a >= 0) == (b >= 0), q, -q)


def is_flag_int(v):
    """z3 term of the shape If(c,1,0)"""
    return (z3.is_app_of(v, z3.Z3_OP_ITE) and z3.is_int_value(v.arg(1)) and z3.is_int_value(v.arg(2))
            and v.arg(1).as_long() == 1 and v.arg(2).as_long() == 0)


EXP = z3.Function('EXP', z3.RealSort(), z3.RealSort())
LOG = z3.Function('LOG', z3.RealSort(), z3.RealSort())


class Exec:
    def __init__(self, mod, timeout_ms=20000, max_steps=400000, seed=0):
        self.mod = mod
        self.stats = Stats()
        self.timeout_ms = timeout_ms
        self.max_steps = max_steps
        self.seed = seed
        self.globals_init = {}
        self.trace = None
        self.sample_rng = None    # random.Random: when set, a reservoir sample of decided queries is kept for the cross-solver check
        self.sample_size = 3
        self.sample_seen = 0
        self.samples = []
        self.exact_consts = False  # symbolic runs: literal/converted constants are exact Fractions (consistent with XR's exact reals)
        self._frag_stop = None
        self.sqrt_mode = 'exact'   # 'exact': s >= 0, s*s = x;  'monotone': order-only facts (keeps queries out of NRA when only comparisons matter)
        self.fork_minmax = False   # fmin/fmax fork into two paths instead of producing an ite term
        self.stubs = {}           # function name -> callable(path, caller, ins, argvalues): replaces a callee (stated per harness)
        self.floor_hook = None    # callable(path, operand, is_ceil) -> XR, or None for the normal semantics
        self.fptosi_hook = None   # callable(path, operand, target type) -> int value, or None for the normal semantics

    # ------------------------------------------------------------ solver
    def solver_check(self, constraints, want_model=True, timeout_ms=None):
        s = z3.Solver()
        s.set('timeout', timeout_ms or self.timeout_ms)
        s.set('random_seed', self.seed)
        for c in constraints:
            s.add(c)
        if xr.Eps.active and xr.Eps.constraints:
            s.add(*xr.Eps.constraints)
        t = time.time()
        # the z3 timeout is not honoured inside some preprocessing steps (polynomial rewriting): a watchdog interrupts the context
        wd = threading.Timer((timeout_ms or self.timeout_ms) / 1000.0 + 3.0, z3.main_ctx().interrupt)
        wd.daemon = True
        wd.start()
        try:
            r = s.check()
        except z3.Z3Exception:
            r = z3.unknown
        finally:
            wd.cancel()
        self.stats.solver_time += time.time() - t
        self.stats.queries += 1
        rs = str(r)
        if self.sample_rng is not None and rs in ('sat', 'unsat'):
            # reservoir sample of decided queries for the cross-solver check
            self.sample_seen += 1
            k = self.sample_size
            if len(self.samples) < k:
                self.samples.append((s.to_smt2(), rs))
            else:
                j = self.sample_rng.randrange(self.sample_seen)
                if j < k:
                    self.samples[j] = (s.to_smt2(), rs)
        if rs == 'unknown':
            self.stats.unknown += 1
        m = s.model() if (rs == 'sat' and want_model) else None
        return rs, m

    def decide(self, path, c):
        """fork point: returns the boolean outcome followed on this path"""
        if isinstance(c, bool):
            return c
        if path.subst:
            c2 = z3.simplify(z3.substitute(c, *path.subst))
            if z3.is_true(c2):
                return True
            if z3.is_false(c2):
                return False
        if path.pos < len(path.dec):
            d = path.dec[path.pos]
            path.pos += 1
            path.pc.append(c if d else z3.Not(c))
            if d:
                path.learn(c)
            return d
        # new decision
        first = None
        m_other = None
        if path.model is not None:
            first = z3.is_true(path.model.eval(c, model_completion=True))
            self.stats.cache_hits += 1
            r, m = self.solver_check(path.pc + [z3.Not(c) if first else c])
            if r == 'sat':
                m_other = m
            elif r == 'unknown':
                path.unknown += 1
                m_other = 'unknown'
        else:
            r1, m1 = self.solver_check(path.pc + [c])
            r2, m2 = self.solver_check(path.pc + [z3.Not(c)])
            if r1 == 'unknown' or r2 == 'unknown':
                path.unknown += 1
            if r1 != 'unsat':
                first = True
                path.model = m1
                if r2 != 'unsat':
                    m_other = m2 if m2 is not None else 'unknown'
            elif r2 != 'unsat':
                first = False
                path.model = m2
            else:
                # path condition itself infeasible (only after an 'unknown' upstream)
                first = True
                path.notes.append('infeasible-pc')
        path.dec.append(first)
        path.alt.append(m_other)
        path.pos += 1
        path.pc.append(c if first else z3.Not(c))
        if first:
            path.learn(c)
        return first

    # ------------------------------------------------------------ values
    def fresh_of_type(self, path, ty, tag):
        path.fresh += 1
        nm = '%s!%d' % (tag, path.fresh)
        if ty == 'double':
            return xr.sym_double(nm, nan=True, inf=False)
        if ty == 'i1':
            return z3.Bool(nm)
        if ty in INT_RANGE:
            v = z3.Int(nm)
            lo, hi = INT_RANGE[ty]
            path.assume(z3.And(v >= lo, v <= hi))
            return v
        raise Unsupported('fresh value of type ' + ty)

    def viol(self, path, kind, cond, fn, ins, var='', detail=''):
        path.viols.append(Viol(kind, cond, fn.name, ins.line if ins is not None else None, var, detail))
        if cond is True and kind in ('oob-read', 'oob-write', 'null-deref', 'use-after-free'):
            path.definite_oob = getattr(path, 'definite_oob', 0) + 1
            if path.definite_oob > 12:
                raise Runaway('%s: more than 12 definite out-of-object accesses on one path' % fn.name)

    def ptrname(self, fn, ins, p):
        return p.obj.name

    # ------------------------------------------------------------ memory
    def load(self, path, fn, ins, p, ty):
        if p is None:
            self.viol(path, 'null-deref', True, fn, ins, 'NULL')
            return self.fresh_of_type(path, scalar_of(ty) if not ty.endswith('*') else 'i64', 'oob')
        o, off = p.obj, p.off
        if o.elty is None:
            raise Unsupported('load from untyped malloc object')
        if not o.alive:
            self.viol(path, 'use-after-free', True, fn, ins, o.name)
        n = len(o.cells)
        if is_concrete_int(off):
            if not (0 <= off < n):
                self.viol(path, 'oob-read', True, fn, ins, o.name, 'offset %d of %d' % (off, n))
                return self.fresh_of_type(path, o.elty if not o.elty.endswith('*') else 'i64', 'oob')
            v = o.cells[off]
            if v is None:
                v = self.fresh_of_type(path, o.elty, 'uninit')
                path.uninit.append((o.name, off, fn.name, ins.line))
                o.cells[off] = v
            return v
        inb = z3.And(off >= 0, off < n)
        self.viol(path, 'oob-read', z3.Not(inb), fn, ins, o.name, 'symbolic offset, len %d' % n)
        if n == 0:
            return self.fresh_of_type(path, o.elty, 'oob')
        vals = []
        for i in range(n):
            v = o.cells[i]
            if v is None:
                v = self.fresh_of_type(path, o.elty, 'uninit')
                path.uninit.append((o.name, i, fn.name, ins.line))
                o.cells[i] = v
            vals.append(v)
        return self.ite_chain(off, vals, o.elty)

    def ite_chain(self, off, vals, elty):
        n = len(vals)
        r = vals[n - 1]
        for i in range(n - 2, -1, -1):
            r = self.ite(off == i, vals[i], r, elty)
        return r

    def ite(self, c, a, b, ty):
        if isinstance(c, bool):
            return a if c else b
        if ty == 'double':
            return xr.fite(c, a, b)
        if isinstance(a, Ptr) or isinstance(b, Ptr) or a is None or b is None:
            if isinstance(a, Ptr) and isinstance(b, Ptr) and a.obj is b.obj:
                return Ptr(a.obj, self.ite(c, a.off, b.off, 'i64'))
            raise Unsupported('ite over pointers')
        if isinstance(a, bool) or isinstance(b, bool) or z3.is_bool(a) or z3.is_bool(b):
            return xr.b_ite(c, a, b)
        if is_concrete_int(a) and is_concrete_int(b) and a == b:
            return a
        return z3.If(c, a, b)

    def store(self, path, fn, ins, p, v, ty):
        if p is None:
            self.viol(path, 'null-deref', True, fn, ins, 'NULL')
            return
        o, off = p.obj, p.off
        if o.elty is None:
            raise Unsupported('store to untyped malloc object')
        if not o.alive:
            self.viol(path, 'use-after-free', True, fn, ins, o.name)
        if o.kind == 'const':
            self.viol(path, 'write-to-const', True, fn, ins, o.name)
        n = len(o.cells)
        o.written = True
        if is_concrete_int(off):
            if not (0 <= off < n):
                self.viol(path, 'oob-write', True, fn, ins, o.name, 'offset %d of %d' % (off, n))
                return
            o.cells[off] = v
            return
        inb = z3.And(off >= 0, off < n)
        self.viol(path, 'oob-write', z3.Not(inb), fn, ins, o.name, 'symbolic offset, len %d' % n)
        for i in range(n):
            old = o.cells[i]
            if old is None:
                old = self.fresh_of_type(path, o.elty, 'uninit')
            o.cells[i] = self.ite(off == i, v, old, o.elty)

    # ------------------------------------------------------------ operands
    def val(self, env, c):
        k = c.kind
        if k == 'reg':
            return env[c.v]
        if k == 'float':
            if self.exact_consts and math.isfinite(c.v):
                return Fraction(c.v)
            return c.v
        if k in ('int', 'bool'):
            return c.v
        if k == 'null':
            return None
        if k == 'global':
            return self.global_ptr(c.v)
        if k == 'gep':
            base = self.global_ptr(c.v[0])
            return base
        if k == 'undef':
            return 0
        raise Unsupported('operand kind ' + k)

    def global_ptr(self, name):
        if name[1:] in self.mod.funcs or self.lookup_func(name[1:], None) is not None:
            return FnRef(name[1:])
        g = self.cur_globals.get(name)
        if g is None:
            info = self.mod.globals.get(name)
            if info is None or info[1] is None or info[1] == 'string':
                o = Obj(name, 'i8', [0], 'global')
            else:
                t, vals = info
                o = Obj(name, scalar_of(t), list(vals), 'global')
            g = Ptr(o, 0)
            self.cur_globals[name] = g
        return g

    def lookup_func(self, name, caller):
        byfile = getattr(self.mod, 'byfile', None)
        if byfile is not None and caller is not None:
            f = byfile.get(caller.srcfile, {}).get(name)
            if f is not None:
                return f
        return self.mod.funcs.get(name)

    # ------------------------------------------------------------ integer ops
    def int_binop(self, path, fn, ins, op, a, b, flags, ty):
        if isinstance(a, bool):
            a = int(a)
        if isinstance(b, bool):
            b = int(b)
        if ty == 'i1':
            # boolean algebra on i1
            if op == 'and':
                return b_and(a if not is_concrete_int(a) else bool(a), b if not is_concrete_int(b) else bool(b))
            if op == 'or':
                return b_or(a if not is_concrete_int(a) else bool(a), b if not is_concrete_int(b) else bool(b))
            if op == 'xor':
                aa = a if not is_concrete_int(a) else bool(a)
                bb = b if not is_concrete_int(b) else bool(b)
                return b_not(xr.b_eq(aa, bb))
        conc = is_concrete_int(a) and is_concrete_int(b)
        lo, hi = INT_RANGE[ty]
        if op in ('add', 'sub', 'mul'):
            if op == 'mul' and not conc:
                # x * (c ? 1 : 0) stays linear as (c ? x : 0)
                if not is_concrete_int(b) and is_flag_int(b):
                    return z3.If(b.arg(0), a, 0) if not is_concrete_int(a) or a != 1 else b
                if not is_concrete_int(a) and is_flag_int(a):
                    return z3.If(a.arg(0), b, 0) if not is_concrete_int(b) or b != 1 else a
            r = a + b if op == 'add' else (a - b if op == 'sub' else a * b)
            if conc:
                if not (lo <= r <= hi):
                    if 'nsw' in flags:
                        self.viol(path, 'signed-overflow', True, fn, ins, ins.dst, '%s %d,%d' % (op, a, b))
                    r = (r - lo) % (hi - lo + 1) + lo
                return r
            if 'nsw' in flags:
                self.viol(path, 'signed-overflow', z3.Or(r < lo, r > hi), fn, ins, ins.dst, op)
            elif 'nuw' not in flags:
                # wrapping arithmetic without nsw (size computations): assume no wrap, checked as obligation
                self.viol(path, 'unsigned-wrap', z3.Or(r < lo, r > hi), fn, ins, ins.dst, op)
            return r
        if op in ('sdiv', 'srem'):
            if conc:
                if b == 0:
                    self.viol(path, 'int-div-by-zero', True, fn, ins, ins.dst)
                    return 0
                if a == lo and b == -1:
                    self.viol(path, 'signed-overflow', True, fn, ins, ins.dst, 'INT_MIN/-1')
                    return 0
                q = c_div(a, b)
                return q if op == 'sdiv' else a - q * b
            bz = (b == 0) if not is_concrete_int(b) else (b == 0)
            if bz is True:
                self.viol(path, 'int-div-by-zero', True, fn, ins, ins.dst)
                return 0
            if bz is not False:
                self.viol(path, 'int-div-by-zero', bz, fn, ins, ins.dst)
                self.viol(path, 'signed-overflow', z3.And(a == lo, b == -1) if not is_concrete_int(a) else (
                    (b == -1) if a == lo else False), fn, ins, ins.dst, 'INT_MIN/-1')
                path.viols = [v for v in path.viols if v.cond is not False]
            elif b == -1:
                self.viol(path, 'signed-overflow', a == lo, fn, ins, ins.dst, 'INT_MIN/-1')
            q = z_trunc_div(a, b)
            return q if op == 'sdiv' else a - q * b
        if op in ('or', 'and', 'xor'):
            if conc:
                return {'or': a | b, 'and': a & b, 'xor': a ^ b}[op]
            if op == 'xor' and is_concrete_int(b) and b == -1:
                return -a - 1
            fa = is_concrete_int(a) and a in (0, 1) or (not is_concrete_int(a) and is_flag_int(a))
            fb = is_concrete_int(b) and b in (0, 1) or (not is_concrete_int(b) and is_flag_int(b))
            if fa and fb:
                ca = (a == 1) if is_concrete_int(a) else a.arg(0)
                cb = (b == 1) if is_concrete_int(b) else b.arg(0)
                c = {'or': b_or, 'and': b_and}[op](ca, cb) if op != 'xor' else b_not(xr.b_eq(ca, cb))
                return z3.If(c, 1, 0) if not isinstance(c, bool) else int(c)
            # bit decomposition over 16 bits (values outside [0, 65535] are reported as outside the modelled range)
            K = 16
            za = z3.IntVal(a) if is_concrete_int(a) else a
            zb = z3.IntVal(b) if is_concrete_int(b) else b
            rng = []
            for v in (a, b):
                if not is_concrete_int(v):
                    rng.append(z3.Or(v < 0, v >= 2 ** K))
                elif not (0 <= v < 2 ** K):
                    raise Unsupported('bitwise %s with a constant outside 16 bits' % op)
            self.viol(path, 'bitwise-range', z3.Or(*rng), fn, ins, ins.dst)
            r = 0
            for k in range(K):
                if is_concrete_int(a) and not (a >> k) & 1 and op == 'and':
                    continue
                if is_concrete_int(b) and not (b >> k) & 1 and op == 'and':
                    continue
                ba = ((za / (2 ** k)) % 2 == 1)
                bb = ((zb / (2 ** k)) % 2 == 1)
                bit = {'and': z3.And(ba, bb), 'or': z3.Or(ba, bb), 'xor': z3.Xor(ba, bb)}[op]
                r = r + z3.If(bit, 2 ** k, 0)
            return r
        if op in ('shl', 'ashr', 'lshr'):
            if conc:
                return a << b if op == 'shl' else a >> b
            if is_concrete_int(b):
                return a * (2 ** b) if op == 'shl' else z3.If(a >= 0, a / (2 ** b), -((-a + 2 ** b - 1) / (2 ** b)))
        raise Unsupported('int op %s' % op)

    def icmp(self, pred, a, b):
        if isinstance(a, (Ptr, FnRef)) or isinstance(b, (Ptr, FnRef)) or a is None or b is None:
            if a is None and b is None:
                eq = True
            elif a is None or b is None:
                eq = False
            elif isinstance(a, Ptr) and isinstance(b, Ptr):
                if a.obj is not b.obj:
                    eq = False
                else:
                    eq = (a.off == b.off)
            else:
                eq = a is b
            if pred == 'eq':
                return eq
            if pred == 'ne':
                return b_not(eq) if not isinstance(eq, bool) else (not eq)
            raise Unsupported('pointer comparison ' + pred)
        if isinstance(a, bool) or z3.is_bool(a) if not is_concrete_int(a) else False:
            a = z3.If(a, 1, 0) if not isinstance(a, bool) else int(a)
        if isinstance(b, bool) or (not is_concrete_int(b) and z3.is_bool(b)):
            b = z3.If(b, 1, 0) if not isinstance(b, bool) else int(b)
        if pred == 'eq':
            return a == b
        if pred == 'ne':
            return a != b
        if pred == 'slt':
            return a < b
        if pred == 'sle':
            return a <= b
        if pred == 'sgt':
            return a > b
        if pred == 'sge':
            return a >= b
        raise Unsupported('icmp ' + pred)

    def fcmp(self, pred, a, b):
        m = {'olt': 'lt', 'ole': 'le', 'ogt': 'gt', 'oge': 'ge', 'oeq': 'eq'}
        if pred in m:
            return xr.fcmp(m[pred], a, b)
        if pred == 'une':
            return xr.fcmp('ne', a, b)
        if pred == 'uno':
            return b_or(xr.fisnan(a), xr.fisnan(b))
        if pred == 'ord':
            return b_not(b_or(xr.fisnan(a), xr.fisnan(b)))
        if pred == 'one':
            return b_and(b_not(b_or(xr.fisnan(a), xr.fisnan(b))), b_not(xr.fcmp('eq', a, b)))
        if pred in ('ult', 'ule', 'ugt', 'uge', 'ueq'):
            return b_or(b_or(xr.fisnan(a), xr.fisnan(b)), xr.fcmp(pred[1:], a, b))
        raise Unsupported('fcmp ' + pred)

    # ------------------------------------------------------------ casts
    def cast(self, path, fn, ins, op, v, t1, t2):
        if op == 'bitcast':
            if isinstance(v, Ptr) and v.obj.elty is None and t2.endswith('*'):
                # first typed view of a malloc'ed block fixes its element type
                elty = scalar_of(t2[:-1])
                if elty == 'i8':
                    return v
                o = v.obj
                o.elty = elty
                o.elsize = sizeof(elty)
                n = o.nbytes // o.elsize
                o.cells = [None] * n
                return v
            return v
        if op == 'sext':
            if t1 == 'i1':
                return (-1 if v else 0) if isinstance(v, bool) else z3.If(v, -1, 0)
            return v
        if op == 'zext':
            if t1 == 'i1':
                return int(v) if isinstance(v, bool) else z3.If(v, 1, 0)
            if is_concrete_int(v):
                return v if v >= 0 else v + (1 << (8 * sizeof(t1)))
            self.viol(path, 'zext-of-negative', v < 0, fn, ins, ins.dst)
            return v
        if op == 'trunc':
            lo, hi = INT_RANGE[t2]
            if t2 == 'i1':
                return (v % 2 == 1) if not is_concrete_int(v) else bool(v & 1)
            if is_concrete_int(v):
                if not (lo <= v <= hi):
                    path.notes.append('trunc-out-of-range %s line %s' % (fn.name, ins.line))
                    return (v - lo) % (hi - lo + 1) + lo
                return v
            # value-changing truncation is implementation-defined, not UB: flagged as a note-level obligation
            self.viol(path, 'lossy-trunc', z3.Or(v < lo, v > hi), fn, ins, ins.dst)
            return v
        if op == 'sitofp':
            if isinstance(v, bool):
                v = int(v)
            if is_concrete_int(v):
                return Fraction(v) if self.exact_consts else float(v)
            if v.sort() == z3.RealSort():
                return XR(v)      # real-valued stand-in for an integer (pure-NRA harnesses)
            return XR(z3.ToReal(v))   # exact below 2^53 (assumption stated in the evidence)
        if op == 'fptosi':
            lo, hi = INT_RANGE[t2]
            if self.fptosi_hook is not None:
                r = self.fptosi_hook(path, v, t2)
                if r is not None:
                    return r
            if xr.is_conc(v):
                if math.isnan(v) or math.isinf(v) or not (lo - 1 < v < hi + 1):
                    self.viol(path, 'fptosi-out-of-range', True, fn, ins, ins.dst, repr(v))
                    return 0
                return int(v)
            x = v.val
            self.viol(path, 'fptosi-out-of-range',
                      b_or(v.nan, v.pinf, v.ninf, z3.Or(x <= lo - 1, x >= hi + 1)), fn, ins, ins.dst)
            return z3.If(x >= 0, z3.ToInt(x), -z3.ToInt(-x))
        if op in ('ptrtoint', 'inttoptr'):
            raise Unsupported(op)
        if op in ('fpext', 'fptrunc'):
            return v
        raise Unsupported('cast ' + op)

    # ------------------------------------------------------------ externals
    def external(self, path, fn, ins, name, args, env):
        a = [x for _, x in args]
        if name == 'fprintf' or name == 'printf' or name == 'fflush':
            return 0
        if name == 'malloc':
            n = a[0]
            if not is_concrete_int(n):
                n = to_conc_int(z3.simplify(n))
                if not is_concrete_int(n):
                    raise Unsupported('malloc of symbolic size')
            if n < 0:
                self.viol(path, 'malloc-negative-size', True, fn, ins, 'malloc')
                n = 0
            path.fresh += 1
            o = Obj('malloc@%s:%s' % (fn.name, ins.line), None, [], 'malloc', nbytes=n)
            return Ptr(o, 0)
        if name == 'free':
            p = a[0]
            if p is None:
                return None
            if not p.obj.alive:
                self.viol(path, 'double-free', True, fn, ins, p.obj.name)
            if p.obj.kind != 'malloc' or (is_concrete_int(p.off) and p.off != 0):
                self.viol(path, 'invalid-free', True, fn, ins, p.obj.name)
            p.obj.alive = False
            return None
        if name in ('llabs', 'labs'):
            v = a[0]
            if is_concrete_int(v):
                if v == -2 ** 63:
                    self.viol(path, 'signed-overflow', True, fn, ins, name)
                return abs(v)
            self.viol(path, 'signed-overflow', v == -2 ** 63, fn, ins, name)
            return z3.If(v >= 0, v, -v)
        if name == 'abs':
            v = a[0]
            if is_concrete_int(v):
                if v == -2 ** 31:
                    self.viol(path, 'signed-overflow', True, fn, ins, 'abs')
                return abs(v)
            self.viol(path, 'signed-overflow', v == -2 ** 31, fn, ins, 'abs')
            return z3.If(v >= 0, v, -v)
        if name == 'llvm.fabs.f64' or name == 'fabs':
            return xr.fabs_(a[0])
        if name in ('llvm.minnum.f64', 'fmin', 'llvm.maxnum.f64', 'fmax'):
            ismin = 'min' in name
            x, y = a[0], a[1]
            if self.fork_minmax and not (xr.is_conc(x) and xr.is_conc(y)):
                lx, ly = xr.lift(x), xr.lift(y)
                if not lx.special and not ly.special:
                    # fork instead of building an if-then-else term: every path then fixes every comparison
                    c = xr.fcmp('le' if ismin else 'ge', lx, ly)
                    if not isinstance(c, bool):
                        c = self.decide(path, c)
                    return x if c else y
            return xr.fmin(x, y) if ismin else xr.fmax(x, y)
        if name in ('floor', 'llvm.floor.f64', 'ceil', 'llvm.ceil.f64'):
            v = a[0]
            up = 'ceil' in name
            if self.floor_hook is not None and not xr.is_conc(v):
                r = self.floor_hook(path, v, up)
                if r is not None:
                    return r
            if xr.is_conc(v):
                if math.isnan(v) or math.isinf(v):
                    return v
                return float(math.ceil(v) if up else math.floor(v))
            x = v.val
            r = -z3.ToReal(z3.ToInt(-x)) if up else z3.ToReal(z3.ToInt(x))
            return XR(r, None, v.nan, v.pinf, v.ninf)
        if name == 'sqrt':
            v = a[0]
            if xr.is_conc(v):
                if isinstance(v, Fraction) and v >= 0:
                    n, d = math.isqrt(v.numerator), math.isqrt(v.denominator)
                    if n * n == v.numerator and d * d == v.denominator:
                        return Fraction(n, d)
                return math.sqrt(v) if v >= 0 else math.nan
            path.fresh += 1
            s = z3.Real('sqrt!%d' % path.fresh)
            x = v.val
            if self.sqrt_mode == 'monotone':
                # order-only model (sound facts about the real square root): non-negative, zero iff x is zero, below max(1, x),
                # and strictly monotone with respect to every other square root taken on this path
                facts = [s >= 0, z3.Implies(x < 0, s == 0), z3.Implies(x >= 0, (s == 0) == (x == 0)),
                         z3.Implies(x >= 1, s <= x), z3.Implies(z3.And(x >= 0, x <= 1), s <= 1)]
                for s2, x2 in getattr(path, 'sqrts', []):
                    facts.append(z3.Implies(z3.And(x >= 0, x2 >= 0), z3.And((x < x2) == (s < s2), (x == x2) == (s == s2))))
                path.sqrts = getattr(path, 'sqrts', []) + [(s, x)]
                path.assume(z3.And(*facts))
            else:
                path.assume(z3.And(s >= 0, z3.Implies(x >= 0, s * s == x), z3.Implies(x < 0, s == 0)))
            neg = x < 0
            return XR(s, None, nan=b_or(v.nan, v.ninf, b_and(v.fin(), neg)), pinf=v.pinf)
        if name in ('exp', 'log'):
            v = a[0]
            if xr.is_conc(v):
                if name == 'exp':
                    try:
                        return math.exp(v)
                    except OverflowError:
                        return math.inf
                if math.isnan(v) or v < 0:
                    return math.nan
                return math.log(v) if v > 0 else -math.inf
            x = v.val
            if name == 'exp':
                e = EXP(x)
                path.assume(z3.And(e > 0, e >= 1 + x))
                return XR(e, None, nan=v.nan, pinf=v.pinf)  # exp(-inf)=0 approximated by EXP(x)>0
            l = LOG(x)
            path.assume(z3.Implies(x > 0, z3.And(l <= x - 1, EXP(l) == x)))
            return XR(l, None, nan=b_or(v.nan, v.ninf, b_and(v.fin(), x < 0)), pinf=v.pinf,
                      ninf=b_and(v.fin(), x == 0))
        if name == 'pow':
            x, y = a
            if isinstance(x, Fraction) and xr.is_conc(y) and float(y) == int(float(y)) and 0 <= float(y) <= 8:
                return x ** int(float(y))
            if xr.is_conc(x) and xr.is_conc(y):
                try:
                    return math.pow(x, y)
                except (OverflowError, ValueError):
                    return math.nan
            if xr.is_conc(y) and float(y) == 2.0:
                return xr.fmul(x, x)
            if xr.is_conc(y) and float(y) == 1.0:
                return x
            raise Unsupported('pow with non-constant exponent')
        if name == 'llvm.memcpy.p0i8.p0i8.i64':
            dst, src, n = a[0], a[1], a[2]
            if not is_concrete_int(n):
                raise Unsupported('memcpy symbolic size')
            es = src.obj.elsize
            if dst.obj.elty is None:
                raise Unsupported('memcpy into untyped block')
            if dst.obj.elsize != es:
                raise Unsupported('memcpy between different element sizes')
            for i in range(n // es):
                self.store(path, fn, ins, Ptr(dst.obj, dst.off + i), self.load(path, fn, ins, Ptr(src.obj, src.off + i), src.obj.elty), dst.obj.elty)
            return None
        if name == 'qsort':
            return self.qsort(path, fn, ins, a)
        raise Unsupported('external function ' + name)

    def qsort(self, path, fn, ins, a):
        """stable insertion sort; every comparison is a call of the real comparator from the IR"""
        base, n, size, cmp = a
        if base is None:
            self.viol(path, 'null-deref', True, fn, ins, 'qsort base')
            return None
        if not is_concrete_int(n) or not is_concrete_int(size):
            raise Unsupported('qsort with symbolic length')
        o = base.obj
        if o.elty is None:
            raise Unsupported('qsort on untyped block')
        w = size // o.elsize
        cf = self.lookup_func(cmp.name, fn)
        off0 = base.off
        if n * w + off0 > len(o.cells) or n < 0:
            self.viol(path, 'oob-write', True, fn, ins, o.name, 'qsort of %d elements beyond buffer of %d' % (n, len(o.cells)))
            n = max(0, (len(o.cells) - off0) // w)
        for i in range(1, n):
            j = i
            while j > 0:
                r = self.call(path, cf, [Ptr(o, off0 + (j - 1) * w), Ptr(o, off0 + j * w)])
                if is_concrete_int(r):
                    gt = r > 0
                else:
                    gt = self.decide(path, r > 0)
                if not gt:
                    break
                for k in range(w):
                    x, y = off0 + (j - 1) * w + k, off0 + j * w + k
                    o.cells[x], o.cells[y] = o.cells[y], o.cells[x]
                j -= 1
        return None

    # ------------------------------------------------------------ calls
    def call(self, path, f, args, start_block=None, init_env=None):
        env = dict(zip(f.params, args))
        if init_env:
            env.update(init_env)
        blk = start_block or f.order[0]
        prev = None
        blocks = f.blocks
        while True:
            nxt = None
            for ins in blocks[blk]:
                path.steps += 1
                op = ins.op
                if op == 'load':
                    env[ins.dst] = self.load(path, f, ins, self.val(env, ins.a), ins.ty)
                elif op == 'store':
                    tgt = self.val(env, ins.a[1])
                    if self._frag_stop is not None and isinstance(tgt, Ptr) and tgt.obj is self._frag_stop:
                        raise _FragmentStop()
                    self.store(path, f, ins, tgt, self.val(env, ins.a[0]), ins.ty)
                elif op == 'gep':
                    base = self.val(env, ins.a[0])
                    idx = [self.val(env, c) for c in ins.a[1]]
                    env[ins.dst] = self.gep(path, f, ins, base, idx, ins.ty)
                elif op == 'alloca':
                    t = ins.ty
                    n = sizeof(t) // sizeof(scalar_of(t))
                    env[ins.dst] = Ptr(Obj('%s.%s' % (f.name, f.vars.get(ins.dst, ins.dst)), scalar_of(t), [None] * n, 'alloca'), 0)
                elif op in ('add', 'sub', 'mul', 'sdiv', 'srem', 'or', 'and', 'xor', 'shl', 'ashr', 'lshr'):
                    env[ins.dst] = self.int_binop(path, f, ins, op, self.val(env, ins.a[0]), self.val(env, ins.a[1]), ins.a[2], ins.ty)
                elif op in ('fadd', 'fsub', 'fmul', 'fdiv'):
                    env[ins.dst] = xr.farith(op[1:], self.val(env, ins.a[0]), self.val(env, ins.a[1]))
                elif op == 'fneg':
                    env[ins.dst] = xr.fneg(self.val(env, ins.a))
                elif op == 'icmp':
                    env[ins.dst] = self.icmp(ins.a[0], self.val(env, ins.a[1]), self.val(env, ins.a[2]))
                elif op == 'fcmp':
                    env[ins.dst] = self.fcmp(ins.a[0], self.val(env, ins.a[1]), self.val(env, ins.a[2]))
                elif op == 'condbr':
                    c = self.val(env, ins.a[0])
                    if not isinstance(c, bool):
                        c = self.decide(path, c)
                    nxt = ins.a[1] if c else ins.a[2]
                    break
                elif op == 'br':
                    nxt = ins.a
                    break
                elif op == 'ret':
                    return self.val(env, ins.a) if ins.a is not None else None
                elif op in ('sext', 'zext', 'trunc', 'bitcast', 'sitofp', 'fptosi', 'fpext', 'fptrunc', 'ptrtoint', 'inttoptr'):
                    env[ins.dst] = self.cast(path, f, ins, op, self.val(env, ins.a), ins.ty[0], ins.ty[1])
                elif op == 'call':
                    callee, cargs = ins.a
                    avals = [(t, self.val(env, c)) for t, c in cargs]
                    if callee.startswith('%'):
                        target = env[callee]
                        g = self.lookup_func(target.name, f)
                    else:
                        g = self.lookup_func(callee[1:], f)
                    if self.stubs and callee[1:] in self.stubs:
                        r = self.stubs[callee[1:]](path, f, ins, [v for _, v in avals])
                    elif g is not None:
                        r = self.call(path, g, [v for _, v in avals])
                    else:
                        r = self.external(path, f, ins, callee[1:], avals, env)
                    if ins.dst:
                        env[ins.dst] = r
                elif op == 'phi':
                    for v, b in ins.a:
                        if b == prev:
                            env[ins.dst] = self.val(env, v)
                            break
                    else:
                        raise Unsupported('phi without matching predecessor')
                elif op == 'select':
                    c = self.val(env, ins.a[0])
                    env[ins.dst] = self.ite(c, self.val(env, ins.a[1]), self.val(env, ins.a[2]), ins.ty)
                elif op == 'switch':
                    v = self.val(env, ins.a[0])
                    nxt = ins.a[1]
                    for cv, lab in ins.a[2]:
                        c = (v == cv)
                        if not isinstance(c, bool):
                            c = self.decide(path, c)
                        if c:
                            nxt = lab
                            break
                    break
                elif op == 'unreachable':
                    self.viol(path, 'unreachable-reached', True, f, ins, '')
                    return None
                else:
                    raise Unsupported('op ' + op)
                if path.steps > self.max_steps:
                    raise BoundExceeded('%s: more than %d instructions on one path' % (f.name, self.max_steps))
            if nxt is None:
                raise Unsupported('block without terminator')
            prev, blk = blk, nxt

    def gep(self, path, fn, ins, base, idx, bt):
        if base is None:
            # pointer arithmetic on NULL: flagged when dereferenced
            return None
        o = base.obj
        if o.elty is None:
            # i8* arithmetic on an untyped malloc block is not used by the kernels
            raise Unsupported('gep on untyped block')
        es = o.elsize
        off = base.off
        stride = sizeof(bt)
        t = bt
        for k, i in enumerate(idx):
            if isinstance(i, bool):
                i = int(i)
            if k > 0:
                import re
                m = re.match(r'\[(\d+) x (.*)\]$', t)
                if not m:
                    raise Unsupported('gep into non-array type ' + t)
                t = m.group(2)
                stride = sizeof(t)
            if stride % es != 0:
                raise Unsupported('gep stride not a multiple of the element size')
            s = stride // es
            if is_concrete_int(i) and i == 0:
                continue
            off = off + i * s
        return Ptr(o, off)

    # ------------------------------------------------------------ mid-function start (inductive steps / loop-body lemmas)
    def find_func(self, fname, srcfile=None):
        f = None
        if srcfile is not None and getattr(self.mod, 'byfile', None):
            f = self.mod.byfile.get(srcfile, {}).get(fname)
        return f or self.mod.funcs[fname]

    def run_fragment(self, path, fname, args, locals_init, start_pred, stop_store_to, srcfile=None):
        """execute one piece of a function from an arbitrary state: the allocas of the entry block are created, the
        parameters stored, the named C locals set to `locals_init`, control starts at the first block satisfying
        start_pred(block name, instructions) and stops just before a store to the local named `stop_store_to`
        (e.g. the loop counter's increment).  Returns {C local name: value} at the stop."""
        self.cur_globals = {}
        f = self.find_func(fname, srcfile)
        env = dict(zip(f.params, args))
        names = {}
        for ins in f.blocks[f.order[0]]:
            if ins.op == 'alloca':
                t = ins.ty
                n = sizeof(t) // sizeof(scalar_of(t))
                cname = f.vars.get(ins.dst, ins.dst)
                env[ins.dst] = Ptr(Obj('%s.%s' % (f.name, cname), scalar_of(t), [None] * n, 'alloca'), 0)
                names[cname] = env[ins.dst]
            elif ins.op == 'store' and ins.a[0].kind == 'reg' and ins.a[0].v in f.params:
                self.store(path, f, ins, self.val(env, ins.a[1]), self.val(env, ins.a[0]), ins.ty)
        for cname, v in locals_init.items():
            if cname not in names:
                raise Unsupported('no local named %s in %s' % (cname, fname))
            names[cname].obj.cells[0] = v
        start = next((b for b in f.order if start_pred(b, f.blocks[b], f)), None)
        if start is None:
            raise Unsupported('fragment start block not found in %s' % fname)
        stop_obj = names[stop_store_to].obj if stop_store_to in names else None
        if stop_obj is None:
            raise Unsupported('no local named %s in %s' % (stop_store_to, fname))
        self._frag_stop = stop_obj
        try:
            r = self.call(path, f, args, start_block=start, init_env=env)
            ended = 'returned'
        except _FragmentStop:
            r = None
            ended = 'stop'
        finally:
            self._frag_stop = None
        self.sqrt_mode = 'exact'   # 'exact': s >= 0, s*s = x;  'monotone': order-only facts (keeps queries out of NRA when only comparisons matter)
        out = {k: p.obj.cells[0] for k, p in names.items()}
        out['__ended'] = ended
        out['__ret'] = r
        return out

    # ------------------------------------------------------------ entry
    def run(self, path, fname, args, srcfile=None):
        self.cur_globals = {}
        f = None
        if srcfile is not None and getattr(self.mod, 'byfile', None):
            f = self.mod.byfile.get(srcfile, {}).get(fname)
        f = f or self.mod.funcs[fname]
        return self.call(path, f, args)
