"""Line-oriented parser for the LLVM-14 textual IR that `clang -O0` produces from the
hydrodiy C kernels.  Only the subset catalogued in DESIGN.md (appendix) is understood; anything
else raises Unsupported so that a check ends with a harness error instead of a wrong verdict."""
import re
import struct
import subprocess
import os


class Unsupported(Exception):
    pass


# ---------------------------------------------------------------- types
def parse_type(s):
    """parse a type at the start of s; returns (type, rest).  Types are strings in canonical
    spelling: 'i32', 'double', 'T*', '[N x T]', '%struct.X', 'void', 'fn' (function types)."""
    s = s.lstrip()
    m = re.match(r'(i\d+|double|float|void|%[\w.]+|metadata|x86_fp80|\.\.\.)', s)
    if m:
        t = m.group(1)
        s = s[m.end():]
    elif s.startswith('['):
        m = re.match(r'\[(\d+) x ', s)
        inner, rest = parse_type(s[m.end():])
        rest = rest.lstrip()
        assert rest.startswith(']'), s
        t = '[%s x %s]' % (m.group(1), inner)
        s = rest[1:]
    else:
        raise Unsupported('type: ' + s[:40])
    while True:
        s2 = s.lstrip()
        if s2.startswith('*'):
            t += '*'
            s = s2[1:]
        elif s2.startswith('('):
            # function type: skip the balanced parenthesis
            d = 0
            for i, ch in enumerate(s2):
                if ch == '(':
                    d += 1
                elif ch == ')':
                    d -= 1
                    if d == 0:
                        break
            t = 'fn'
            s = s2[i + 1:]
        else:
            break
    return t, s


def sizeof(t):
    if t.endswith('*') or t == 'fn':
        return 8
    m = re.match(r'\[(\d+) x (.*)\]$', t)
    if m:
        return int(m.group(1)) * sizeof(m.group(2))
    if t in ('i1', 'i8'):
        return 1
    if t == 'i32':
        return 4
    if t in ('i64', 'double'):
        return 8
    if t == 'i16':
        return 2
    raise Unsupported('sizeof ' + t)


def scalar_of(t):
    """innermost scalar element type of an (array) type"""
    m = re.match(r'\[(\d+) x (.*)\]$', t)
    while m:
        t = m.group(2)
        m = re.match(r'\[(\d+) x (.*)\]$', t)
    return t


def pointee(t):
    assert t.endswith('*'), t
    return t[:-1]


# ---------------------------------------------------------------- operands
class Const:
    __slots__ = ('kind', 'v')

    def __init__(self, kind, v):
        self.kind = kind  # 'int','float','bool','null','undef','global','fn','gep','reg'
        self.v = v

    def __repr__(self):
        return 'Const(%s,%r)' % (self.kind, self.v)


def parse_value(tok, ty, funcs_known=None):
    tok = tok.strip()
    if tok.startswith('%'):
        return Const('reg', tok)
    if tok.startswith('@'):
        return Const('global', tok)
    if tok in ('true', 'false'):
        return Const('bool', tok == 'true')
    if tok == 'null':
        return Const('null', None)
    if tok in ('undef', 'poison'):
        return Const('undef', None)
    if re.match(r'^-?\d+$', tok):
        if ty == 'double':
            return Const('float', float(tok))
        return Const('int', int(tok))
    if re.match(r'^-?\d+\.\d*(e[+-]?\d+)?$', tok):
        return Const('float', float(tok))
    if tok.startswith('0x'):
        h = tok[2:]
        if h[0] in 'KLMHR':
            raise Unsupported('float literal ' + tok)
        return Const('float', struct.unpack('>d', bytes.fromhex(h.rjust(16, '0')))[0])
    m = re.match(r'^getelementptr inbounds \((.*)\)$', tok)
    if m:
        # constant GEP into a global (string literal or table): only ", i64 0, i64 0" style
        parts = split_top(m.group(1))
        _, rest = parse_type(parts[1])
        idx = [int(p.split()[-1]) for p in parts[2:]]
        return Const('gep', (rest.strip(), idx))
    m = re.match(r'^bitcast \((.*) to (.*)\)$', tok)
    if m:
        _, rest = parse_type(m.group(1))
        return parse_value(rest, m.group(2))
    raise Unsupported('operand: ' + tok[:60])


def split_top(s):
    """split on commas that are not nested in () [] {}"""
    out, d, cur = [], 0, ''
    for ch in s:
        if ch in '([{':
            d += 1
        elif ch in ')]}':
            d -= 1
        if ch == ',' and d == 0:
            out.append(cur.strip())
            cur = ''
        else:
            cur += ch
    if cur.strip():
        out.append(cur.strip())
    return out


def typed_operand(s):
    """'<type> <value>' (with optional attributes like noundef) -> (type, Const)"""
    t, rest = parse_type(s)
    rest = re.sub(r'^(\s*(noundef|nonnull|noalias|nocapture|readonly|writeonly|signext|zeroext|immarg|align \d+))+', '',
                  rest)
    return t, parse_value(rest, t)


# ---------------------------------------------------------------- instructions
class Ins:
    __slots__ = ('op', 'dst', 'a', 'line', 'text', 'ty')

    def __init__(self, op, dst, a, line, text, ty=None):
        self.op, self.dst, self.a, self.line, self.text, self.ty = op, dst, a, line, text, ty

    def __repr__(self):
        return '<%s>' % self.text


class Func:
    def __init__(self, name, params, ptypes, rettype, srcfile):
        self.name, self.params, self.ptypes, self.rettype = name, params, ptypes, rettype
        self.blocks, self.order, self.srcfile = {}, [], srcfile
        self.internal = False
        self.vars = {}  # register -> C variable name (from llvm.dbg.declare)


class Module:
    def __init__(self):
        self.funcs = {}    # external-linkage functions by name (static ones only as a fallback)
        self.byfile = {}   # source file -> {name: Func}; calls resolve in the caller's file first
        self.globals = {}  # name -> (type, initializer: list of python values or None)
        self.files = []

    def merge(self, other):
        for k, v in other.funcs.items():
            if k not in self.funcs or not v.internal:
                self.funcs[k] = v
        for f, d in other.byfile.items():
            self.byfile.setdefault(f, {}).update(d)
        self.globals.update(other.globals)
        self.files += other.files


BINOPS = ('add', 'sub', 'mul', 'sdiv', 'srem', 'udiv', 'urem', 'and', 'or', 'xor', 'shl', 'ashr', 'lshr',
          'fadd', 'fsub', 'fmul', 'fdiv', 'frem')
CASTS = ('sext', 'zext', 'trunc', 'bitcast', 'sitofp', 'fptosi', 'uitofp', 'fptoui', 'ptrtoint', 'inttoptr',
         'fpext', 'fptrunc')


def parse_ins(text, dbgloc, fname):
    s = text
    dst = None
    m = re.match(r'(%[\w.]+) = (.*)$', s)
    if m:
        dst, s = m.group(1), m.group(2)
    op = s.split(' ', 1)[0]
    rest = s[len(op):].strip()
    if op == 'tail' or op == 'notail' or op == 'musttail':
        op = 'call'
        rest = rest.split(' ', 1)[1] if rest.startswith('call') else rest
    mk = lambda o, a, ty=None: Ins(o, dst, a, dbgloc, text, ty)
    if op == 'alloca':
        t, _ = parse_type(rest)
        return mk('alloca', None, t)
    if op == 'load':
        parts = split_top(rest)
        t, _ = parse_type(parts[0])
        pt, p = typed_operand(parts[1])
        return mk('load', p, t)
    if op == 'store':
        parts = split_top(rest)
        t, v = typed_operand(parts[0])
        pt, p = typed_operand(parts[1])
        return mk('store', (v, p), t)
    if op == 'getelementptr':
        rest = re.sub(r'^inbounds ', '', rest)
        parts = split_top(rest)
        bt, _ = parse_type(parts[0])
        pt, p = typed_operand(parts[1])
        idx = [typed_operand(x)[1] for x in parts[2:]]
        return mk('gep', (p, idx), bt)
    if op in BINOPS:
        flags = set()
        while True:
            m = re.match(r'(nsw|nuw|exact|fast|nnan|ninf|nsz|arcp|contract|afn|reassoc) ', rest)
            if not m:
                break
            flags.add(m.group(1))
            rest = rest[m.end():]
        t, r2 = parse_type(rest)
        parts = split_top(r2)
        return mk(op, (parse_value(parts[0], t), parse_value(parts[1], t), flags), t)
    if op == 'fneg':
        t, r2 = parse_type(rest)
        return mk('fneg', parse_value(r2, t), t)
    if op in CASTS:
        m = re.match(r'(.*) to (.*)$', rest)
        t, v = typed_operand(m.group(1))
        t2, _ = parse_type(m.group(2))
        return mk(op, v, (t, t2))
    if op in ('icmp', 'fcmp'):
        m = re.match(r'(\w+) (.*)$', rest)
        t, r2 = parse_type(m.group(2))
        parts = split_top(r2)
        return mk(op, (m.group(1), parse_value(parts[0], t), parse_value(parts[1], t)), t)
    if op == 'br':
        m = re.match(r'i1 (\S+), label %([\w.]+), label %([\w.]+)$', rest)
        if m:
            return mk('condbr', (parse_value(m.group(1), 'i1'), m.group(2), m.group(3)))
        m = re.match(r'label %([\w.]+)$', rest)
        return mk('br', m.group(1))
    if op == 'ret':
        if rest == 'void':
            return mk('ret', None, 'void')
        t, v = typed_operand(rest)
        return mk('ret', v, t)
    if op == 'phi':
        t, r2 = parse_type(rest)
        inc = re.findall(r'\[ (.+?), %([\w.]+) \]', r2)
        return mk('phi', [(parse_value(v, t), b) for v, b in inc], t)
    if op == 'select':
        parts = split_top(rest)
        c = typed_operand(parts[0])[1]
        t, a = typed_operand(parts[1])
        _, b = typed_operand(parts[2])
        return mk('select', (c, a, b), t)
    if op == 'call':
        rest = re.sub(r'^(noalias |noundef |signext |zeroext |nonnull )+', '', rest)
        rt, r2 = parse_type(rest)
        r2 = r2.lstrip()
        # optional full function type "(...)" already consumed by parse_type as 'fn' → recover
        m = re.match(r'(@[\w.]+|%[\w.]+)\((.*)\)( #\d+)?$', r2)
        if not m:
            raise Unsupported('call: ' + text)
        callee = m.group(1)
        args = []
        if callee == '@llvm.dbg.declare':
            m2 = re.match(r'metadata \S+ (%[\w.]+), metadata (!\d+)', m.group(2))
            return Ins('dbg', None, (m2.group(1), m2.group(2)) if m2 else None, dbgloc, text)
        if callee.startswith('@llvm.dbg') or callee.startswith('@llvm.lifetime'):
            return Ins('dbg', None, None, dbgloc, text)
        for a in split_top(m.group(2)):
            args.append(typed_operand(a))
        return mk('call', (callee, args), rt)
    if op == 'unreachable':
        return mk('unreachable', None)
    if op == 'switch':
        m = re.match(r'(\w+) (\S+), label %([\w.]+) \[(.*)\]$', rest)
        if m:
            cases = re.findall(r'\w+ (-?\d+), label %([\w.]+)', m.group(4))
            return mk('switch', (parse_value(m.group(2), m.group(1)), m.group(3), [(int(a), b) for a, b in cases]))
    raise Unsupported('instruction: ' + text)


def parse_ll(path, srcfile=None):
    mod = Module()
    mod.files.append(srcfile or path)
    lines = open(path).read().split('\n')
    # debug metadata: !N = !DILocation(line: L ...), !N = !DILocalVariable(name: "x" ...)
    dloc, dvar = {}, {}
    for ln in lines:
        if ln.startswith('!'):
            m = re.match(r'(!\d+) = !DILocation\(line: (\d+)', ln)
            if m:
                dloc[m.group(1)] = int(m.group(2))
                continue
            m = re.match(r'(!\d+) = !DILocalVariable\(name: "(\w+)"', ln)
            if m:
                dvar[m.group(1)] = m.group(2)
    cur = None
    blk = None
    i = 0
    while i < len(lines):
        line = lines[i]
        i += 1
        if cur is None:
            m = re.match(r'define .*?@([\w.]+)\((.*)\) (?:local_unnamed_addr )?#\d+', line)
            if m:
                hdr = line.split('@')[0]
                rt = hdr.replace('define', '').replace('dso_local', '').replace('internal', '').replace('noundef', '')
                rt = re.sub(r'\b(signext|zeroext|noalias|nonnull)\b', '', rt).strip()
                params, ptypes = [], []
                if m.group(2).strip():
                    for p in split_top(m.group(2)):
                        t, r = parse_type(p)
                        ptypes.append(t)
                        params.append(r.split()[-1])
                cur = Func(m.group(1), params, ptypes, rt, srcfile or path)
                cur.internal = ' internal ' in hdr
                mod.funcs[cur.name] = cur
                mod.byfile.setdefault(cur.srcfile, {})[cur.name] = cur
                blk = 'entry'
                cur.blocks[blk] = []
                cur.order.append(blk)
                continue
            m = re.match(r'(@[\w.]+) = (.*)$', line)
            if m:
                parse_global(mod, m.group(1), m.group(2))
            continue
        if line == '}':
            cur = None
            continue
        m = re.match(r'^([\w.]+):', line)
        if m:
            blk = m.group(1)
            cur.blocks[blk] = []
            cur.order.append(blk)
            continue
        s = line.strip()
        if not s or s.startswith(';'):
            continue
        # a switch spans several lines
        if s.startswith('switch') and not s.endswith(']'):
            while not lines[i].strip().endswith(']'):
                s += ' ' + lines[i].strip()
                i += 1
            s += ' ' + lines[i].strip()
            i += 1
        m = re.search(r', !dbg (!\d+)', s)
        ln = dloc.get(m.group(1)) if m else None
        s = re.sub(r', !\w[\w.]* !\d+', '', s)
        s = re.sub(r', align \d+$', '', s)
        ins = parse_ins(s, ln, cur.name)
        if ins.op == 'dbg':
            if ins.a and ins.a[1] in dvar:
                cur.vars[ins.a[0]] = dvar[ins.a[1]]
            continue
        cur.blocks[blk].append(ins)
    return mod


def parse_global(mod, name, rest):
    rest = re.sub(r', !dbg !\d+', '', rest)
    rest = re.sub(r', align \d+$', '', rest)
    rest = re.sub(r'^(internal|private|external|dso_local|unnamed_addr|local_unnamed_addr|common)\s+', '', rest)
    while True:
        r2 = re.sub(r'^(internal|private|external|dso_local|unnamed_addr|local_unnamed_addr|common)\s+', '', rest)
        if r2 == rest:
            break
        rest = r2
    m = re.match(r'(global|constant) (.*)$', rest)
    if not m:
        return
    t, init = parse_type(m.group(2))
    init = init.strip()
    vals = None
    if init.startswith('c"'):
        vals = 'string'
    elif init.startswith('['):
        elems = split_top(init[1:init.rindex(']')])
        vals = [typed_operand(e)[1].v for e in elems]
    elif init == 'zeroinitializer':
        n = sizeof(t) // sizeof(scalar_of(t))
        vals = [0.0 if scalar_of(t) == 'double' else 0] * n
    elif init:
        vals = [parse_value(init, t).v]
    mod.globals[name] = (t, vals)


CLANG_FLAGS = ['-O0', '-Xclang', '-disable-O0-optnone', '-ffp-contract=off', '-g', '-fno-discard-value-names',
               '-S', '-emit-llvm', '-w']


def compile_to_ir(cfile, outdir):
    out = os.path.join(outdir, os.path.basename(cfile)[:-2] + '.ll')
    r = subprocess.run(['clang'] + CLANG_FLAGS + ['-I', os.path.dirname(cfile), cfile, '-o', out],
                       capture_output=True, text=True)
    if r.returncode != 0:
        raise RuntimeError('clang failed on %s:\n%s' % (cfile, r.stderr[-2000:]))
    return out


def load_kernels(cfiles, outdir):
    mod = Module()
    for c in cfiles:
        mod.merge(parse_ll(compile_to_ir(c, outdir), c))
    return mod
