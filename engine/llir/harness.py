"""Family framework for engine A: one `Family` = one kernel configuration with symbolic inputs, a
specification evaluated both symbolically (assertion) and concretely (oracle for replays)."""
import hashlib
import json
import math
import os
import random
import time
import traceback
from fractions import Fraction

import z3

from . import xr, native
from .interp import Exec, Path, Ptr, Obj, BoundExceeded, is_concrete_int
from .parse import load_kernels, Unsupported
from .xr import XR, b_and, b_or, b_not, b_implies

PKG_FILES = {
    'data': ['data/c_dateutils.c', 'data/c_qualitycontrol.c', 'data/c_dutils.c', 'data/c_var2h.c', 'data/c_baseflow.c'],
    'stat': ['stat/c_crps.c', 'stat/c_dscore.c', 'stat/c_olsleverage.c', 'stat/c_armodels.c', 'stat/AnDarl.c',
             'stat/c_andersondarling.c', 'stat/c_paretofront.c'],
    'gis': ['gis/c_grid.c', 'gis/c_catchment.c', 'gis/c_points_inside_polygon.c'],
}
PKG_EXTRA_NATIVE = {'stat': ['stat/ADinf.c'], 'data': [], 'gis': []}


def repo_root():
    return os.environ.get('VERIF_REPO', '/repo')


class Scalar:
    def __init__(self, ty, value):
        self.ty, self.value = ty, value


class Buf:
    def __init__(self, name, ty, values, out=False):
        self.name, self.ty, self.values, self.out = name, ty, list(values), out


class Sym:
    """factory of symbolic inputs bound to one path"""

    def __init__(self, path):
        self.path = path
        self.assumed = []     # input assumptions, re-checked concretely on every replayed counterexample

    def int(self, name, lo=None, hi=None):
        v = z3.Int(name)
        if lo is not None:
            self.path.assume(v >= lo)
        if hi is not None:
            self.path.assume(v <= hi)
        return v

    def real(self, name, lo=None, hi=None, nan=False, inf=False):
        x = xr.sym_double(name, nan=nan, inf=inf)
        for c in xr.kind_constraints(x):
            self.path.assume(c)
        if lo is not None:
            self.path.assume(x.num >= xr.rv(lo))
        if hi is not None:
            self.path.assume(x.num <= xr.rv(hi))
        return x

    def bool(self, name):
        return z3.Bool(name)

    def assume(self, c):
        if not isinstance(c, bool):
            self.assumed.append(c)
        self.path.assume(c)


def subst_pairs(I, Ic, out):
    """(symbol, value) pairs mapping the symbolic inputs to a concrete valuation of the same shape"""
    if isinstance(I, dict):
        for k in I:
            subst_pairs(I[k], Ic[k], out)
    elif isinstance(I, (list, tuple)):
        for a, b in zip(I, Ic):
            subst_pairs(a, b, out)
    elif isinstance(I, XR):
        b = float(Ic)
        if z3.is_expr(I.nan) and z3.is_const(I.nan):
            out.append((I.nan, z3.BoolVal(math.isnan(b))))
        if z3.is_expr(I.pinf) and z3.is_const(I.pinf):
            out.append((I.pinf, z3.BoolVal(b == math.inf)))
        if z3.is_expr(I.ninf) and z3.is_const(I.ninf):
            out.append((I.ninf, z3.BoolVal(b == -math.inf)))
        if I.den is None and z3.is_const(I.num) and I.num.decl().kind() == z3.Z3_OP_UNINTERPRETED:
            out.append((I.num, xr.rv(b if math.isfinite(b) else 0.0)))
    elif z3.is_expr(I) and z3.is_const(I) and I.decl().kind() == z3.Z3_OP_UNINTERPRETED:
        if I.sort() == z3.IntSort():
            out.append((I, z3.IntVal(int(Ic))))
        elif I.sort() == z3.RealSort():
            out.append((I, xr.rv(float(Ic))))
        elif I.sort() == z3.BoolSort():
            out.append((I, z3.BoolVal(bool(Ic))))
    return out


def precondition_holds(assumed, I, Ic):
    """do the concrete inputs actually passed to the real build satisfy every harness assumption?"""
    pairs = subst_pairs(I, Ic, [])
    if not pairs:
        return True
    for c in assumed:
        r = z3.simplify(z3.substitute(c, *pairs))
        if z3.is_false(r):
            return False
        if not z3.is_true(r):
            # derived inputs (expressions over other symbols) are not substituted: undecided counts as not holding
            s = z3.Solver()
            s.set('timeout', 2000)
            s.add(z3.Not(r))
            if str(s.check()) != 'unsat':
                return False
    return True


def concretize(v, model):
    if isinstance(v, dict):
        return {k: concretize(x, model) for k, x in v.items()}
    if isinstance(v, (list, tuple)):
        return [concretize(x, model) for x in v]
    if isinstance(v, XR):
        return xr.float_of(model, v)
    if isinstance(v, (bool, int, float, str)) or v is None:
        return v
    if isinstance(v, Fraction):
        return float(v)
    if z3.is_expr(v):
        if z3.is_bool(v):
            return z3.is_true(model.eval(v, model_completion=True))
        r = model.eval(v, model_completion=True)
        if z3.is_int_value(r):
            return r.as_long()
        return float(xr.frac_of(model, v))
    raise TypeError('concretize %r' % (v,))


def real_leaves(v, out):
    if isinstance(v, dict):
        for x in v.values():
            real_leaves(x, out)
    elif isinstance(v, (list, tuple)):
        for x in v:
            real_leaves(x, out)
    elif isinstance(v, XR):
        if v.den is None and z3.is_const(v.num) and v.num.decl().kind() == z3.Z3_OP_UNINTERPRETED:
            out.append(v.num)
    return out


def plain_reals(v, out):
    """Real-sorted z3 terms used as stand-ins for integers (integer models are preferred for replay)"""
    if isinstance(v, dict):
        for x in v.values():
            plain_reals(x, out)
    elif isinstance(v, (list, tuple)):
        for x in v:
            plain_reals(x, out)
    elif z3.is_expr(v) and v.sort() == z3.RealSort():
        out.append(v)
    return out


def jsonable(v):
    if isinstance(v, dict):
        return {str(k): jsonable(x) for k, x in v.items()}
    if isinstance(v, (list, tuple)):
        return [jsonable(x) for x in v]
    if isinstance(v, float):
        if math.isnan(v):
            return 'nan'
        if math.isinf(v):
            return 'inf' if v > 0 else '-inf'
        return v
    if isinstance(v, (bool, int, str)) or v is None:
        return v
    return str(v)


def unjson(v):
    if isinstance(v, dict):
        return {k: unjson(x) for k, x in v.items()}
    if isinstance(v, list):
        return [unjson(x) for x in v]
    if v == 'nan':
        return math.nan
    if v == 'inf':
        return math.inf
    if v == '-inf':
        return -math.inf
    return v


class ArgList:
    """adapter presenting a fixed argument list through the Family.args interface (used by composed harnesses)"""

    def __init__(self, a, kernel=None, pkg=None):
        self._a, self.kernel, self.pkg = a, kernel, pkg

    def args(self, inst, I):
        return self._a


def sym_kernel(ex, path, kernel, arglist, srcfile):
    """run one kernel symbolically (or concretely) on an explicit argument list; returns the outputs dict"""
    args, objs, vals = make_call(ArgList(arglist), None, None)
    ret = ex.run(path, kernel, vals, srcfile)
    O = {'ret': ret}
    for a in args:
        if isinstance(a, Buf):
            O[a.name] = objs[a.name].cells
    O['__written__'] = {n: o.written for n, o in objs.items()}
    O['__globals_written__'] = sorted(g for g, p in ex.cur_globals.items() if p.obj.written)
    return O


def nat_kernel(ctx, pkg, kernel, arglist):
    """run one kernel natively on an explicit (concrete) argument list"""
    return native_call(ctx, ArgList(arglist, kernel, pkg), None, None)


def split_paths(inst, bits, skip=0):
    """split one instance into 2^bits parallel tasks by the values of `bits` branch decisions after the first `skip`"""
    return [dict(inst, _split=[k, bits, skip]) for k in range(1 << bits)]


class KnownPred:
    """input-class predicate of a known finding.  pred(inst, I) must work on symbolic and concrete I."""

    def __init__(self, kid, keys, pred, what):
        self.id, self.keys, self.pred, self.what = kid, keys, pred, what


class Family:
    prop = None
    name = None
    pkg = None
    kernel = None
    srcfile = None
    eps = False
    memory = False        # True: automatic memory/UB obligations are this family's assertions (C05)
    tol = 1e-9            # concrete oracle tolerance
    known = ()            # KnownPred list (only those listed in known_findings.json are active)
    max_paths = 200000
    time_budget = {'quick': 150, 'thorough': 900}
    validate_paths = 12   # translator-validation cases per instance (one model per explored path)
    ignore_viol_kinds = ('lossy-trunc', 'bitwise-range')

    def instances(self, tier):
        raise NotImplementedError

    def inputs(self, inst, S):
        raise NotImplementedError

    def args(self, inst, I):
        raise NotImplementedError

    def spec(self, inst, I, O):
        return []

    def cost(self, inst):
        return 1

    def describe(self, inst):
        return json.dumps(inst, sort_keys=True)

    def execute(self, ex, path, inst, I, srcfile):
        """symbolic (or concrete) run of the real kernel(s); returns the outputs dict O"""
        args, objs, vals = make_call(self, inst, I)
        ret = ex.run(path, self.kernel, vals, srcfile)
        O = {'ret': ret}
        for a in args:
            if isinstance(a, Buf):
                O[a.name] = objs[a.name].cells
        O['__written__'] = {n: o.written for n, o in objs.items()}
        O['__globals_written__'] = sorted(g for g, p in ex.cur_globals.items() if p.obj.written)
        return O

    def native(self, ctx, inst, Ic):
        """the same call(s) on the natively compiled, sanitised kernels; returns (status dict, O, call text)"""
        return native_call(ctx, self, inst, Ic)

    def fixup(self, inst, Ic):
        """adjust a concretised model to what is really passed to the kernel (e.g. round real-valued stand-ins to integers)"""
        return Ic

    def viol_filter(self, inst, I, viol):
        """memory families: return False to drop an obligation the wrapper contract rules out"""
        return True


# ---------------------------------------------------------------------------------- context

class Ctx:
    """per-process build context (IR modules, native drivers), all under a temp directory"""

    def __init__(self, workdir):
        self.workdir = workdir
        self.mods = {}
        self.drivers = {}

    def cfiles(self, pkg):
        base = os.path.join(repo_root(), 'src', 'hydrodiy')
        return [os.path.join(base, f) for f in PKG_FILES[pkg]]

    def mod(self, pkg):
        if pkg not in self.mods:
            d = os.path.join(self.workdir, 'ir_' + pkg)
            os.makedirs(d, exist_ok=True)
            self.mods[pkg] = load_kernels(self.cfiles(pkg), d)
        return self.mods[pkg]

    def driver(self, pkg):
        if pkg not in self.drivers:
            base = os.path.join(repo_root(), 'src', 'hydrodiy')
            extra = [os.path.join(base, f) for f in PKG_EXTRA_NATIVE[pkg]]
            self.drivers[pkg] = native.build_driver(self.mod(pkg), self.cfiles(pkg) + extra, self.workdir, pkg)
        return self.drivers[pkg]


def load_known(prop):
    p = os.path.join(os.path.dirname(__file__), '..', '..', 'known_findings.json')
    try:
        data = json.load(open(p))
    except FileNotFoundError:
        return {}
    return {e['id']: e for e in data.get('findings', []) if e.get('property') == prop and e.get('status') == 'known'}


# ---------------------------------------------------------------------------------- symbolic call

def _intify(ty, v):
    """concrete value for an integer-typed slot (real-valued stand-ins are concretised to floats)"""
    if ty in ('i32', 'i64') and isinstance(v, float):
        return int(round(v))
    return v


def make_call(fam, inst, I, symbolic=True):
    args = fam.args(inst, I)
    objs = {}
    vals = []
    for a in args:
        if isinstance(a, Scalar):
            a.value = _intify(a.ty, a.value)
        else:
            a.values = [_intify(a.ty, v) for v in a.values]
        if isinstance(a, Scalar):
            vals.append(a.value)
        else:
            o = Obj(a.name, a.ty, list(a.values), 'arg')
            objs[a.name] = o
            vals.append(Ptr(o, 0))
    return args, objs, vals


def native_call(ctx, fam, inst, Ic):
    args = fam.args(inst, Ic)
    desc = []
    for a in args:
        if isinstance(a, Scalar):
            desc.append(('s', a.ty, _intify(a.ty, a.value)))
        else:
            a.values = [_intify(a.ty, v) for v in a.values]
            desc.append(('b', a.ty, a.values))
    text = native.call_text(fam.kernel, desc)
    res = native.run_driver(ctx.driver(fam.pkg), text)
    O = {'ret': res.get('ret')}
    for i, a in enumerate(args):
        if isinstance(a, Buf):
            O[a.name] = res.get('bufs', {}).get(i, list(a.values))
    return res, O, text


def eval_spec_concrete(fam, inst, Ic, O):
    failed = []
    for label, c in fam.spec(inst, Ic, O):
        if z3.is_expr(c):
            raise RuntimeError('concrete oracle produced a symbolic condition for %s' % label)
        if not bool(c):
            failed.append(label)
    return failed


def values_equal(a, b, tol=1e-12):
    if isinstance(a, float) or isinstance(b, float):
        a, b = float(a), float(b)
        if math.isnan(a) or math.isnan(b):
            return math.isnan(a) and math.isnan(b)
        if math.isinf(a) or math.isinf(b):
            return a == b
        return abs(a - b) <= tol * max(1.0, abs(a), abs(b))
    return a == b


# ---------------------------------------------------------------------------------- exploration

class InstanceResult(dict):
    pass


def explore_instance(ctx, fam, inst, tier, seed, known_active):
    t0 = time.time()
    mod = ctx.mod(fam.pkg)
    ex = Exec(mod, timeout_ms=20000 if tier == 'quick' else 60000, seed=seed)
    ex.exact_consts = True
    ex.sample_rng = random.Random(seed * 31 + 7)
    ex.fork_minmax = getattr(fam, 'fork_minmax', False)
    ex.sqrt_mode = getattr(fam, 'sqrt_mode', 'exact')
    res = dict(family=fam.name, inst=inst, paths=0, obligations=0, discharged=0, inconclusive=[], nonrepro=0,
               known_hits={}, violations=[], samples=[], bound_exceeded=0, validated=0, validation_skipped=0,
               mismatches=[], nontrivial=0, error=None, deferred_memory=0, uninit_reads=0, labels={})
    budget = fam.time_budget.get(tier, 150)
    if os.environ.get('VF_TIME_SCALE'):
        budget *= float(os.environ['VF_TIME_SCALE'])
    gd = getattr(fam, '_global_deadline', None)     # wall-clock cap of the whole check (run.run_llir): what is not explored by then is inconclusive
    if gd is not None:
        budget = min(budget, max(0.0, gd - t0))
    confirmed_known = {}    # known id -> KnownPred (already confirmed by a replay in this instance)
    split = inst.get('_split') if isinstance(inst, dict) else None   # [k, bits]: this task owns the paths whose first decisions spell k
    stack = [([], None)]
    rng = random.Random(seed * 7919 + hash(fam.name) % 1000)
    srcfile = os.path.join(repo_root(), 'src', 'hydrodiy', fam.srcfile) if fam.srcfile else None
    try:
        while stack:
            if time.time() - t0 > budget:
                res['inconclusive'].append({'reason': 'time-budget', 'pending_prefixes': len(stack)})
                break
            if res['paths'] >= fam.max_paths:
                res['inconclusive'].append({'reason': 'max-paths', 'pending_prefixes': len(stack)})
                break
            if len(res['violations']) >= 2:
                break
            dec, model = stack.pop()
            path = Path(dec, model)
            xr.Eps.reset(fam.eps)
            S = Sym(path)
            I = fam.inputs(inst, S)
            path.assumed = S.assumed
            O = None
            try:
                O = fam.execute(ex, path, inst, I, srcfile)
                bound = False
            except BoundExceeded as e:
                bound = True
                res['bound_exceeded'] += 1
                res['inconclusive'].append({'reason': 'bound-exceeded', 'detail': str(e)})
            mine = True
            if split is not None:
                k, bits = split[0], split[1]
                skip = split[2] if len(split) > 2 else 0
                want = [bool((k >> b) & 1) for b in range(bits)]
                key = path.dec[skip:skip + bits]
                mis = next((i for i in range(len(key)) if key[i] != want[i]), None)
                if mis is not None:
                    # not this task's share of the path space: only steer towards it
                    mine = False
                    pos = skip + mis
                    if pos >= len(dec) and path.alt[pos] is not None:
                        stack.append((path.dec[:pos] + [want[mis]], None if path.alt[pos] == 'unknown' else path.alt[pos]))
                elif len(key) < bits and k >= (1 << len(key)):
                    mine = False      # short paths belong to the task whose remaining bits are zero
                # decisions before `skip` are explored by every task (needed to reach its share); paths ending there belong to task 0
                for i in range(len(dec), min(skip, len(path.dec))):
                    if path.alt[i] is not None:
                        stack.append((path.dec[:i] + [not path.dec[i]], None if path.alt[i] == 'unknown' else path.alt[i]))
            if mine:
                lo = 0 if split is None else (split[2] if len(split) > 2 else 0) + split[1]
                for i in range(max(len(dec), lo), len(path.dec)):
                    if path.alt[i] is not None:
                        stack.append((path.dec[:i] + [not path.dec[i]], None if path.alt[i] == 'unknown' else path.alt[i]))
            if not mine:
                continue
            res['paths'] += 1
            if bound:
                if fam.memory and path.viols:
                    check_path(ctx, ex, fam, inst, path, I, None, res, known_active, confirmed_known, tier, deadline=t0 + budget * 1.15)
                continue
            res['uninit_reads'] += len(path.uninit)
            check_path(ctx, ex, fam, inst, path, I, O, res, known_active, confirmed_known, tier)
            if res['validated'] + res['validation_skipped'] < fam.validate_paths:
                validate_path(ctx, ex, fam, inst, path, I, res, srcfile)
    except Unsupported as e:
        res['error'] = 'unsupported: %s' % e
    except Exception as e:
        res['error'] = 'exception: %s\n%s' % (e, traceback.format_exc()[-1500:])
    from .interp import cross_check
    try:
        res['cross'] = cross_check(ex.samples, ctx.workdir)
    except Exception as e:
        res['cross'] = (0, 0, [])
    res['queries'] = ex.stats.queries
    res['solver_time'] = round(ex.stats.solver_time, 3)
    res['unknown_queries'] = ex.stats.unknown
    res['wall'] = round(time.time() - t0, 2)
    return res


def model_for(ex, path, extra, timeout_ms=None):
    r, m = ex.solver_check(path.pc + list(extra), timeout_ms=timeout_ms)
    return r, m


def nicer_model(ex, path, extra, I, m):
    """try to find a model whose real inputs are dyadic rationals (exactly representable doubles)"""
    leaves = real_leaves(I, [])
    plain = plain_reals(I, [])
    if not leaves and not plain:
        return m
    for k in (2, 10):
        cs = [z3.IsInt(v * (2 ** k)) for v in leaves] + [z3.IsInt(v) for v in plain]
        r, m2 = ex.solver_check(path.pc + list(extra) + cs, timeout_ms=3000)
        if r == 'sat':
            return m2
    return m


def write_replay(fam, inst, Ic, text, failed, observed):
    d = os.path.join(os.environ.get('VF_REPLAY_DIR') or os.path.join(os.path.dirname(__file__), '..', '..', 'replays'), fam.prop)
    os.makedirs(d, exist_ok=True)
    body = dict(property=fam.prop, engine='llir', family=fam.name, kernel=fam.kernel, inst=inst, inputs=jsonable(Ic),
                call=text, failed=failed, observed=jsonable(observed))
    h = hashlib.sha1(json.dumps(body, sort_keys=True).encode()).hexdigest()[:12]
    p = os.path.normpath(os.path.join(d, '%s-%s.json' % (fam.name, h)))
    with open(p, 'w') as fh:
        json.dump(body, fh, indent=1, sort_keys=True)
    return p


def block_model(I, m):
    """constraint excluding the input valuation of model m"""
    lits = []

    def walk(v):
        if isinstance(v, dict):
            for x in v.values():
                walk(x)
        elif isinstance(v, (list, tuple)):
            for x in v:
                walk(x)
        elif isinstance(v, XR):
            for t in (v.num, v.nan, v.pinf, v.ninf):
                if z3.is_expr(t):
                    lits.append(t != m.eval(t, model_completion=True))
        elif z3.is_expr(v):
            lits.append(v != m.eval(v, model_completion=True))
    walk(I)
    return z3.Or(*lits) if lits else z3.BoolVal(False)


def specialize(v, sub):
    """replace input variables pinned by the path condition (var == numeral) by python numbers"""
    if isinstance(v, dict):
        return {k: specialize(x, sub) for k, x in v.items()}
    if isinstance(v, (list, tuple)):
        return [specialize(x, sub) for x in v]
    if z3.is_expr(v) and z3.is_const(v) and v.get_id() in sub:
        return sub[v.get_id()]
    return v


def check_path(ctx, ex, fam, inst, path, I, O, res, known_active, confirmed_known, tier, deadline=None):
    """discharge this path's obligations; replay candidates; classify known / violation / non-reproducing"""
    I_full = I
    if path.subst:
        sub = {a.get_id(): b.as_long() for a, b in path.subst if z3.is_int_value(b)}
        if sub:
            I = specialize(I, sub)
    groups = []   # (key, label, negated-assertion condition)
    if fam.memory:
        seen = set()
        for v in path.viols:
            if v.kind in fam.ignore_viol_kinds or v.cond is False:
                continue
            if not fam.viol_filter(inst, I, v):
                continue
            k = v.key()
            c = v.cond
            if (k, str(c) if not isinstance(c, bool) else c) in seen:
                continue
            seen.add((k, str(c) if not isinstance(c, bool) else c))
            groups.append((k, '%s line %s %s' % (v.kind, v.line, v.detail), c))
    else:
        rng = [v.cond for v in path.viols if v.kind == 'bitwise-range' and v.cond is not False]
        if rng:
            r, _ = model_for(ex, path, [z3.Or(*[c for c in rng if not isinstance(c, bool)] or [z3.BoolVal(True)])], timeout_ms=5000)
            if r != 'unsat':
                res['inconclusive'].append({'reason': 'outside-modelled-range', 'detail': 'bitwise operation on a symbolic integer beyond 16 bits'})
        try:
            sp = fam.spec(inst, I, O)
        except Unsupported as e:
            raise
        for label, c in sp:
            res['labels'][label] = res['labels'].get(label, 0) + 1
            if c is True:
                res['obligations'] += 1
                res['discharged'] += 1
                continue
            res['nontrivial'] += 1
            neg = (not c) if isinstance(c, bool) else z3.Not(c)
            groups.append((label, label, neg))
    if not groups:
        if fam.memory:
            res['obligations'] += 1
            res['discharged'] += 1
        return
    # known findings already confirmed in this instance are excluded up front
    def exclusions(key):
        ex_cs = []
        for kp in confirmed_known.values():
            if key in kp.keys or '*' in kp.keys:
                p = kp.pred(inst, I)
                ex_cs.append(b_not(p))
        return ex_cs
    # fast path: one batched query over all groups
    res['obligations'] += len(groups)
    disj = []
    for key, label, neg in groups:
        cs = [neg] + exclusions(key)
        c = b_and(*cs)
        if c is False:
            continue
        disj.append(c)
    if not disj:
        res['discharged'] += len(groups)
        return
    anysym = b_or(*disj)
    if anysym is not True:
        r, m = model_for(ex, path, [anysym])
        if r == 'unsat':
            res['discharged'] += len(groups)
            return
    # some group is satisfiable (or unknown): treat them one by one
    for key, label, neg in groups:
        tries = 0
        extra_block = []
        while True:
            cs = [neg] + exclusions(key) + extra_block
            c = b_and(*cs)
            if c is False:
                res['discharged'] += 1
                break
            r, m = model_for(ex, path, [] if c is True else [c])
            if r == 'unsat':
                res['discharged'] += 1
                break
            if r == 'unknown':
                res['inconclusive'].append({'reason': 'solver-unknown', 'label': label})
                break
            m = nicer_model(ex, path, [] if c is True else [c], I_full, m)
            Ic = fam.fixup(inst, concretize(I_full, m))
            if not precondition_holds(getattr(path, 'assumed', []), I_full, Ic):
                # rounding the model to doubles / integers left the harness precondition: not a counterexample
                tries += 1
                if tries >= (3 if tier == 'quick' else 6):
                    res['nonrepro'] += 1
                    res['inconclusive'].append({'reason': 'non-reproducing', 'label': label, 'detail': 'model leaves the precondition when rounded',
                                                'inputs': jsonable(Ic)})
                    break
                extra_block.append(block_model(I_full, m))
                continue
            nres, On, text = fam.native(ctx, inst, Ic)
            if fam.memory:
                confirmed = nres['status'] in ('sanitizer', 'signal')
                failed = [key] if confirmed else []
                observed = {'status': nres['status'], 'report': nres.get('report', '')[:600]}
            else:
                if nres['status'] in ('sanitizer', 'signal'):
                    res['deferred_memory'] += 1
                    confirmed = False
                    failed = []
                elif nres['status'] != 'ok':
                    raise RuntimeError('native driver failed: %s' % nres)
                else:
                    failed = eval_spec_concrete(fam, inst, Ic, On)
                    confirmed = len(failed) > 0
                observed = {'status': nres['status'], 'outputs': On}
            if confirmed:
                hit = None
                for kid, entry in known_active.items():
                    kp = next((k for k in fam.known if k.id == kid), None)
                    if kp is None:
                        continue
                    if (key in kp.keys or '*' in kp.keys or any(f in kp.keys for f in failed)) and bool(kp.pred(inst, Ic)):
                        hit = kp
                        break
                if hit is not None:
                    res['known_hits'][hit.id] = res['known_hits'].get(hit.id, 0) + 1
                    if len(res['samples']) < 6:
                        res['samples'].append({'known_finding': hit.id, 'label': label, 'inputs': jsonable(Ic)})
                    confirmed_known[hit.id] = hit
                    if hit.pred(inst, I) is True:
                        res['discharged'] += 0
                        break
                    continue    # re-solve with the class excluded
                rp = write_replay(fam, inst, Ic, text, failed, observed)
                res['violations'].append({'label': label, 'failed': failed, 'replay': rp, 'inputs': jsonable(Ic),
                                          'observed': jsonable(observed)})
                break
            # not reproduced on the real build: abstraction artefact (reals vs floats, uninterpreted functions)
            tries += 1
            if tries >= (3 if tier == 'quick' else 6):
                res['nonrepro'] += 1
                res['inconclusive'].append({'reason': 'non-reproducing', 'label': label, 'inputs': jsonable(Ic)})
                break
            extra_block.append(block_model(I_full, m))


def validate_path(ctx, ex, fam, inst, path, I, res, srcfile):
    """translator validation: run the interpreter concretely on a model of this path and compare all
    outputs with the natively compiled kernel"""
    m = path.model
    if m is None:
        r, m = ex.solver_check(path.pc, timeout_ms=5000)
        if r != 'sat':
            res['validation_skipped'] += 1
            return
    Ic = fam.fixup(inst, concretize(I, m))
    p2 = Path()
    xr.Eps.reset(False)
    ex.exact_consts = False
    try:
        Oi = fam.execute(ex, p2, inst, Ic, srcfile)
    except BoundExceeded:
        res['validation_skipped'] += 1
        return
    finally:
        ex.exact_consts = True
    if p2.uninit or p2.viols and any(v.cond is True for v in p2.viols):
        res['validation_skipped'] += 1   # behaviour of the real build is undefined here: nothing to compare
        return
    nres, On, text = fam.native(ctx, inst, Ic)
    if nres['status'] != 'ok':
        res['validation_skipped'] += 1
        return
    bad = []
    for k, v in Oi.items():
        if k.startswith('__'):
            continue
        w = On.get(k)
        if w is None:
            continue
        if isinstance(v, list):
            for i, (x, y) in enumerate(zip(v, w)):
                if x is None:
                    continue
                if isinstance(x, (XR,)) or z3.is_expr(x):
                    bad.append('%s[%d]: symbolic in concrete mode' % (k, i))
                elif not values_equal(x, y):
                    bad.append('%s[%d]: interpreter %r native %r' % (k, i, x, y))
        elif v is not None and w is not None:
            if isinstance(v, XR) or z3.is_expr(v):
                bad.append('%s: symbolic in concrete mode' % k)
            elif not values_equal(v, w):
                bad.append('%s: interpreter %r native %r' % (k, v, w))
    res['validated'] += 1
    if bad:
        res['mismatches'].append({'inputs': jsonable(Ic), 'diff': bad[:5]})
