"""Wrapper-contract validation (DESIGN.md 2.5): the real Python wrappers are executed with a recording stand-in for the compiled
c_hydrodiy_* modules, and every recorded kernel call must satisfy the precondition the symbolic harnesses assume (how outputs are
allocated, which scalars are derived from the data, what is copied before being handed to a kernel that writes in place).
Scenarios are deterministic; a failing scenario is a confirmed violation (it IS the concrete run of the real wrapper)."""
import copy
import hashlib
import importlib
import json
import os
import time
import traceback

import numpy as np

ROOT = os.path.normpath(os.path.join(os.path.dirname(__file__), '..'))


class Call:
    def __init__(self, name, args, kwargs):
        self.name, self.raw_args = name, args
        self.args = [a.copy() if isinstance(a, np.ndarray) else copy.copy(a) for a in args]
        self.kwargs = kwargs


class Recorder:
    """stand-in for a compiled extension module: records every call; `behaviour[name](call)` may fill outputs / return a code"""

    def __init__(self, behaviour=None):
        self.calls = []
        self.behaviour = behaviour or {}

    def __getattr__(self, name):
        if name.startswith('__'):
            raise AttributeError(name)

        def f(*args, **kwargs):
            c = Call(name, args, kwargs)
            self.calls.append(c)
            b = self.behaviour.get(name)
            return b(c) if b else 0
        return f


class patched_module:
    """replace attribute `attr` (the imported extension module) of a hydrodiy python module by a Recorder"""

    def __init__(self, pymod, attr, rec):
        self.pymod, self.attr, self.rec = pymod, attr, rec

    def __enter__(self):
        self.old = getattr(self.pymod, self.attr)
        setattr(self.pymod, self.attr, self.rec)
        return self.rec

    def __exit__(self, *a):
        setattr(self.pymod, self.attr, self.old)


def run_contracts(prop, module_name, scenarios, tier):
    t0 = time.time()
    part = dict(engine='contract', families={}, obligations=0, discharged=0, inconclusive=[], violations=[], known_hits={}, paths=0, queries=0,
                solver_time=0.0, samples=[], errors=[], nontrivial=0, functions_encoded=[], nonrepro=0, validated=0, mismatches=[])
    for sc in scenarios:
        name = sc.__name__
        try:
            results = sc(tier)
        except Exception as e:
            part['errors'].append({'family': 'contract:' + name, 'error': 'exception: %s\n%s' % (e, traceback.format_exc()[-1500:])})
            continue
        fs = part['families'].setdefault('contract:' + name, dict(obligations=0, discharged=0))
        for label, ok, detail in results:
            part['obligations'] += 1
            part['nontrivial'] += 1
            fs['obligations'] += 1
            if ok:
                part['discharged'] += 1
                fs['discharged'] += 1
            else:
                d = os.path.join(os.environ.get('VF_REPLAY_DIR') or os.path.join(ROOT, 'replays'), prop)
                os.makedirs(d, exist_ok=True)
                body = dict(property=prop, engine='contract', module=module_name, scenario=name, label=label, detail=detail)
                h = hashlib.sha1(json.dumps(body, sort_keys=True, default=str).encode()).hexdigest()[:12]
                p = os.path.join(d, 'contract-%s-%s.json' % (name, h))
                json.dump(body, open(p, 'w'), indent=1, default=str)
                part['violations'].append({'label': label, 'replay': p, 'inputs': detail, 'family': 'contract:' + name, 'property': prop})
        if len(part['samples']) < 6:
            part['samples'].append({'contract_scenario': name, 'assertions': len(results), 'doc': (sc.__doc__ or '').strip()[:300]})
        part['functions_encoded'].append('wrapper-contract:' + name)
    part['wall'] = round(time.time() - t0, 2)
    return part


def replay_main(rec, path):
    h = importlib.import_module(rec['module'])
    sc = next(s for s in h.CONTRACTS if s.__name__ == rec['scenario'])
    results = sc('thorough')
    bad = [(l, d) for l, ok, d in results if not ok]
    for l, d in bad:
        print('failed contract assertion: %s %s' % (l, json.dumps(d, default=str)[:400]))
    if bad:
        print('VIOLATION property=%s replay=%s' % (rec['property'], path))
        return 1
    print('not reproduced on the current tree')
    return 0
