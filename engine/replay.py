"""vf replay <file>: re-run a recorded counterexample against the current tree"""
import importlib
import json
import os
import sys

from engine import run


def main(path):
    rec = json.load(open(path))
    prop = rec['property']
    eng = rec.get('engine', 'llir')
    if eng == 'llir':
        from engine.llir import harness
        h = importlib.import_module('harness.%s' % prop)
        fam = next(f for f in h.FAMILIES if f.name == rec['family'])
        Ic = harness.unjson(rec['inputs'])

        def body(workdir):
            ctx = harness.Ctx(workdir)
            nres, On, text = fam.native(ctx, rec['inst'], Ic)
            if fam.memory:
                bad = nres['status'] in ('sanitizer', 'signal')
                print('native status: %s\n%s' % (nres['status'], nres.get('report', '')[:1500]))
            else:
                failed = harness.eval_spec_concrete(fam, rec['inst'], Ic, On) if nres['status'] == 'ok' else ['native:' + nres['status']]
                bad = bool(failed)
                print('inputs: %s\noutputs: %s\nfailed assertions: %s' % (json.dumps(rec['inputs']), json.dumps(harness.jsonable(On)), failed))
            if bad:
                print('VIOLATION property=%s replay=%s' % (prop, path))
                return 1
            print('not reproduced on the current tree')
            return 0
        return run.with_workdir(body)
    mod = importlib.import_module('engine.%s.replay' % eng)
    return mod.main(rec, path)
