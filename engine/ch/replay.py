from engine.ch.runner import replay_main as main
