"""Engine C — CrossHair (symbolic execution of Python with z3) on contract functions that call the real hydrodiy.io code.
One `crosshair check` process per condition under a wall-clock cap; "Confirmed over all paths" = discharged within the bound;
a counterexample is re-executed concretely on the real code before it is reported; "Not confirmed" / "Unable to meet precondition" =
inconclusive; every contract has a twin with `post: not _` that must be refuted (reachability witness)."""
import ast
import hashlib
import importlib
import json
import os
import re
import subprocess
import sys
import time
from concurrent.futures import ThreadPoolExecutor

ROOT = os.path.normpath(os.path.join(os.path.dirname(__file__), '..', '..'))


def func_lines(path):
    src = open(path).read()
    tree = ast.parse(src)
    out = {}
    for node in tree.body:
        if isinstance(node, ast.FunctionDef):
            out[node.name] = node.lineno + 1
    return out


def run_condition(pyfile, line, timeout, env):
    cmd = [sys.executable, '-m', 'crosshair', 'check', '--report_all', '--per_condition_timeout', str(timeout), '%s:%d' % (pyfile, line)]
    t0 = time.time()
    try:
        r = subprocess.run(cmd, capture_output=True, text=True, timeout=timeout * 3 + 60, env=env, cwd=ROOT)
        out = r.stdout + r.stderr
    except subprocess.TimeoutExpired as e:
        out = 'TIMEOUT'
    return out, time.time() - t0


def classify(out):
    if 'Confirmed over all paths' in out:
        return 'confirmed'
    m = re.search(r'error: (false|.*?) when calling (.*)$', out, re.M)
    if m:
        return 'counterexample'
    if re.search(r'error: .*Error', out) or 'error:' in out:
        return 'counterexample'
    if 'Unable to meet precondition' in out:
        return 'no-precondition'
    if 'Not confirmed' in out:
        return 'not-confirmed'
    if 'TIMEOUT' in out:
        return 'timeout'
    return 'unknown'


def counterexample_call(out):
    m = re.search(r'when calling (.*?)(?: \(which returns.*)?$', out, re.M)
    return m.group(1).strip() if m else None


def replay_call(module, call, env):
    """evaluate the counterexample call concretely in a fresh interpreter; returns (ok, detail). ok=True means the contract holds."""
    code = ('import sys, json\nsys.path.insert(0, %r)\nimport importlib\nm = importlib.import_module(%r)\n'
            'ns = dict(vars(m))\n'
            'try:\n    r = eval(%r, ns)\n    print("RESULT", bool(r))\nexcept Exception as e:\n    print("EXC", type(e).__name__, e)\n') % (ROOT, module, call)
    try:
        r = subprocess.run([sys.executable, '-c', code], capture_output=True, text=True, timeout=120, env=env, cwd=ROOT)
    except subprocess.TimeoutExpired:
        return None, 'replay timeout'
    out = r.stdout.strip().split('\n')[-1] if r.stdout.strip() else r.stderr[-300:]
    if out.startswith('RESULT'):
        return out.endswith('True'), out
    if out.startswith('EXC'):
        return False, out
    return None, out


def run_contracts(prop, module, contracts, tier, timeouts=None):
    """contracts: list of dicts(name=function name, twin=twin function name or None, what=description)"""
    t0 = time.time()
    mod = importlib.import_module(module)
    pyfile = mod.__file__
    lines = func_lines(pyfile)
    env = dict(os.environ)
    repo = os.environ.get('VERIF_REPO', '/repo')
    env['PYTHONPATH'] = os.pathsep.join([os.path.join(repo, 'src'), ROOT, env.get('PYTHONPATH', '')])
    env['PYTHONDONTWRITEBYTECODE'] = '1'
    T = (timeouts or {}).get(tier, 40 if tier == 'quick' else 150)
    jobs = []
    for c in contracts:
        jobs.append((c, c['name'], False))
        if c.get('twin'):
            jobs.append((c, c['twin'], True))

    def work(job):
        c, fname, is_twin = job
        out, dt = run_condition(pyfile, lines[fname], c.get('timeout', {}).get(tier, T), env)
        return job, out, dt
    with ThreadPoolExecutor(max_workers=int(os.environ.get('VF_NPROC', '16'))) as pool:
        results = list(pool.map(work, jobs))
    part = dict(engine='ch', families={}, obligations=0, discharged=0, inconclusive=[], violations=[], known_hits={}, paths=0, queries=0,
                solver_time=0.0, samples=[], errors=[], nontrivial=0, functions_encoded=[], nonrepro=0, validated=0, mismatches=[], conditions=[])
    for (c, fname, is_twin), out, dt in results:
        kind = classify(out)
        part['conditions'].append(dict(function=fname, twin=is_twin, verdict=kind, seconds=round(dt, 1)))
        part['solver_time'] += dt
        part['queries'] += 1
        if is_twin:
            # reachability witness: the twin's `post: not _` must be refuted
            if kind != 'counterexample':
                part['inconclusive'].append({'reason': 'vacuity-twin-not-refuted', 'function': fname, 'verdict': kind})
            continue
        part['obligations'] += 1
        part['nontrivial'] += 1
        part['functions_encoded'].append('%s (%s)' % (c.get('what', fname), fname))
        if kind == 'confirmed':
            part['discharged'] += 1
        elif kind == 'counterexample':
            call = counterexample_call(out)
            ok, detail = replay_call(module, call, env) if call else (None, 'no call in report')
            if ok is False:
                d = os.path.join(os.environ.get('VF_REPLAY_DIR') or os.path.join(ROOT, 'replays'), prop)
                os.makedirs(d, exist_ok=True)
                body = dict(property=prop, engine='ch', module=module, function=fname, call=call, detail=detail, report=out[-800:])
                h = hashlib.sha1(json.dumps(body, sort_keys=True).encode()).hexdigest()[:12]
                p = os.path.join(d, 'ch-%s-%s.json' % (fname, h))
                json.dump(body, open(p, 'w'), indent=1)
                part['violations'].append({'label': fname, 'replay': p, 'inputs': call, 'family': 'crosshair:' + fname, 'property': prop, 'observed': detail})
            else:
                part['nonrepro'] += 1
                part['inconclusive'].append({'reason': 'non-reproducing', 'function': fname, 'call': call, 'detail': detail})
        else:
            part['inconclusive'].append({'reason': 'crosshair-' + kind, 'function': fname, 'seconds': round(dt, 1)})
        if len(part['samples']) < 8:
            part['samples'].append({'contract': fname, 'verdict': kind, 'seconds': round(dt, 1), 'what': c.get('what')})
    part['families'] = {'crosshair': dict(conditions=len(results), discharged=part['discharged'])}
    part['solver_time'] = round(part['solver_time'], 1)
    return part


def replay_main(rec, path):
    env = dict(os.environ)
    repo = os.environ.get('VERIF_REPO', '/repo')
    env['PYTHONPATH'] = os.pathsep.join([os.path.join(repo, 'src'), ROOT, env.get('PYTHONPATH', '')])
    ok, detail = replay_call(rec['module'], rec['call'], env)
    print('call: %s\n%s' % (rec['call'], detail))
    if ok is False:
        print('VIOLATION property=%s replay=%s' % (rec['property'], path))
        return 1
    print('not reproduced on the current tree')
    return 0
