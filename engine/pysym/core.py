"""Engine B — the real Python functions of hydrodiy executed on symbolic scalars (see DESIGN.md 2.2).

`SR` wraps a z3 Real term, `SB` a z3 Bool term.  numpy object arrays hold them, so numpy itself does the
broadcasting, indexing and copying, and its object-dtype loops call SR.exp()/log()/... .  The only decision
point is SB.__bool__, which forks the path (decision-prefix re-execution, shared with engine A).
All arithmetic is exact real arithmetic; EXP / LOG are uninterpreted with sound ground axioms added as the
terms appear.
"""
import math
import types
from fractions import Fraction

import numpy as np
import z3

from engine.llir.interp import Exec, Path, EXP, LOG
from engine.llir.xr import rv


class Unsupported(Exception):
    pass


class State:
    """current path of the symbolic run (module-global: the code under test is single threaded)"""
    path = None
    ex = None
    exps = None   # list of (argument term, EXP term)
    logs = None
    sqrts = None
    nfresh = 0


ST = State()


def start_path(ex, path):
    ST.path, ST.ex = path, ex
    ST.exps, ST.logs, ST.sqrts = [], [], []
    ST.nfresh = 0
    path.assume(EXP(z3.RealVal(0)) == 1)
    path.assume(LOG(z3.RealVal(1)) == 0)


def assume(c):
    if isinstance(c, SB):
        c = c.e
    ST.path.assume(c)


def fresh_real(tag='r'):
    ST.nfresh += 1
    return z3.Real('%s!%d' % (tag, ST.nfresh))


def term(v):
    """z3 Real term of a python number / SR"""
    if isinstance(v, SR):
        return v.e
    if isinstance(v, Dual):
        raise Unsupported('Dual where a plain value is expected')
    if isinstance(v, (bool, np.bool_)):
        return z3.RealVal(int(v))
    if isinstance(v, (int, np.integer)):
        return z3.RealVal(int(v))
    if isinstance(v, (float, np.floating)):
        v = float(v)
        if math.isnan(v) or math.isinf(v):
            raise Unsupported('non-finite constant in symbolic arithmetic')
        return rv(v)
    if isinstance(v, Fraction):
        return rv(v)
    raise TypeError('cannot lift %r' % (type(v),))


def is_num(v):
    return isinstance(v, (int, float, np.integer, np.floating, Fraction)) and not isinstance(v, (bool, np.bool_))


def is_nonfinite(v):
    return isinstance(v, (float, np.floating)) and not math.isfinite(float(v))


class SB:
    """symbolic boolean; bool(sb) forks the path"""
    __slots__ = ('e',)

    def __init__(self, e):
        self.e = e

    def __bool__(self):
        return ST.ex.decide(ST.path, self.e)

    def _o(self, o):
        if isinstance(o, SB):
            return o.e
        return z3.BoolVal(bool(o))

    def __invert__(self):
        return SB(z3.Not(self.e))

    def __and__(self, o):
        return SB(z3.And(self.e, self._o(o)))

    __rand__ = __and__

    def __or__(self, o):
        return SB(z3.Or(self.e, self._o(o)))

    __ror__ = __or__

    def __xor__(self, o):
        return SB(z3.Xor(self.e, self._o(o)))

    def __eq__(self, o):
        return SB(self.e == self._o(o))

    def __ne__(self, o):
        return SB(self.e != self._o(o))

    def __hash__(self):
        return id(self)


def sb(c):
    if isinstance(c, bool):
        return c
    c = z3.simplify(c)
    if z3.is_true(c):
        return True
    if z3.is_false(c):
        return False
    return SB(c)


class SR:
    """symbolic finite real"""
    __slots__ = ('e',)


    def __init__(self, e):
        self.e = e

    # -- arithmetic ------------------------------------------------------
    def _bin(self, o, f, swap=False):
        if isinstance(o, np.ndarray):
            return NotImplemented
        if isinstance(o, Dual):
            return NotImplemented
        if is_nonfinite(o):
            return _nonfinite_arith(self, float(o), f, swap)
        t = term(o)
        return SR(f(t, self.e) if swap else f(self.e, t))

    def __add__(self, o):
        return self._bin(o, lambda a, b: a + b)

    __radd__ = __add__

    def __sub__(self, o):
        return self._bin(o, lambda a, b: a - b)

    def __rsub__(self, o):
        return self._bin(o, lambda a, b: a - b, swap=True)

    def __mul__(self, o):
        return self._bin(o, lambda a, b: a * b)

    __rmul__ = __mul__

    def __truediv__(self, o):
        if is_num(o) and float(o) == 0.0:
            raise Unsupported('division of a symbolic value by the constant zero')
        r = self._bin(o, lambda a, b: a / b)
        if isinstance(o, SR):
            note_division(o.e)
        return r

    def __rtruediv__(self, o):
        note_division(self.e)
        return self._bin(o, lambda a, b: a / b, swap=True)

    def __neg__(self):
        return SR(-self.e)

    def __pos__(self):
        return self

    def __abs__(self):
        return SR(z3.If(self.e >= 0, self.e, -self.e))

    def __pow__(self, o):
        if is_num(o) and float(o) == int(float(o)) and 0 <= int(float(o)) <= 4:
            r = SR(z3.RealVal(1))
            for _ in range(int(float(o))):
                r = r * self
            return r
        if is_num(o) and float(o) == int(float(o)) and -4 <= int(float(o)) < 0:
            return 1 / (self ** (-int(float(o))))
        oo = o if isinstance(o, SR) else SR(term(o))
        # a**b = exp(b*log(a)) for a > 0 (the callers' domains guarantee it; a <= 0 is flagged)
        ST.path.notes.append(('pow-base', self.e))
        return (oo * self.log()).exp()

    def __rpow__(self, o):
        if isinstance(o, (float, np.floating)) and math.isnan(float(o)):
            # nan ** 0 is 1 in IEEE/numpy, nan otherwise
            return 1.0 if ST.ex.decide(ST.path, self.e == 0) else float('nan')
        return (self * SR(term(o)).log()).exp()

    # -- comparisons -----------------------------------------------------
    def _cmp(self, o, f, if_pinf, if_ninf):
        if isinstance(o, np.ndarray):
            return NotImplemented
        if isinstance(o, Dual):
            o = o.v
        if is_nonfinite(o):
            o = float(o)
            if math.isnan(o):
                return False
            return if_pinf if o > 0 else if_ninf
        return sb(f(self.e, term(o)))

    def __lt__(self, o):
        return self._cmp(o, lambda a, b: a < b, True, False)

    def __le__(self, o):
        return self._cmp(o, lambda a, b: a <= b, True, False)

    def __gt__(self, o):
        return self._cmp(o, lambda a, b: a > b, False, True)

    def __ge__(self, o):
        return self._cmp(o, lambda a, b: a >= b, False, True)

    def __eq__(self, o):
        if isinstance(o, np.ndarray):
            return NotImplemented
        if is_nonfinite(o):
            return False
        return sb(self.e == term(o))

    def __ne__(self, o):
        if isinstance(o, np.ndarray):
            return NotImplemented
        if is_nonfinite(o):
            return True
        return sb(self.e != term(o))

    def __hash__(self):
        return id(self)

    def __float__(self):
        raise Unsupported('float() of a symbolic value (silent concretisation refused)')

    def __int__(self):
        raise Unsupported('int() of a symbolic value')

    def __bool__(self):
        return bool(self != 0)

    def __repr__(self):
        return 'SR(%s)' % self.e

    def __format__(self, spec):
        return 'SR'

    # -- numpy object-dtype ufunc hooks -----------------------------------
    def exp(self):
        return SR(mk_exp(self.e))

    def log(self):
        # numpy semantics outside the domain: log of a negative number is NaN, log(0) is -inf (each a fork; decided without a new path when
        # the harness assumed the argument positive)
        na = getattr(ST.path, 'nassume', None)
        if na:
            # cheap entailment test against the input assumptions alone (a handful of mostly linear facts): the usual case, no fork
            r, _ = ST.ex.solver_check(ST.path.pc[:na] + [self.e <= 0], want_model=False, timeout_ms=2000)
            if r == 'unsat':
                return SR(mk_log(self.e))
        if ST.ex.decide(ST.path, self.e > 0):
            return SR(mk_log(self.e))
        if ST.ex.decide(ST.path, self.e == 0):
            return float('-inf')
        return float('nan')

    def sqrt(self):
        return SR(mk_sqrt(self.e))

    def conjugate(self):
        return self

    def sinh(self):
        return (self.exp() - (-self).exp()) / 2

    def cosh(self):
        return (self.exp() + (-self).exp()) / 2

    def tanh(self):
        a, b = self.exp(), (-self).exp()
        return (a - b) / (a + b)

    def arcsinh(self):
        return (self + (self * self + 1).sqrt()).log()

    def log10(self):
        return self.log() / SR(mk_log(z3.RealVal(10)))

    def fabs(self):
        return abs(self)

    def isnan(self):
        return False


class SW(SR):
    """integer-valued symbolic number held in a fixed-width numpy integer (np.array(..., dtype=np.int64) of symbolic counts): +, -, * with
    integers stay in the type and record the obligation that the mathematical result fits (numpy scalars wrap silently otherwise); every
    other operation promotes to a plain symbolic real (float semantics), as numpy does"""
    __slots__ = ('bits',)

    def __init__(self, e, bits=64):
        self.e = e
        self.bits = bits

    def _fit(self, r, bits):
        lim = 2 ** (bits - 1)
        if not hasattr(ST.path, 'int_range'):
            ST.path.int_range = []
        ST.path.int_range.append(z3.And(r >= -lim, r <= lim - 1))
        return SW(r, bits)

    def _int_operand(self, o):
        if isinstance(o, SW):
            return o.e, max(self.bits, o.bits)
        if isinstance(o, (bool, np.bool_)):
            return z3.RealVal(int(o)), self.bits
        if isinstance(o, (int, np.integer)):
            return z3.RealVal(int(o)), self.bits
        return None, None

    def __add__(self, o):
        t, b = self._int_operand(o)
        return SR.__add__(self, o) if t is None else self._fit(self.e + t, b)

    __radd__ = __add__

    def __sub__(self, o):
        t, b = self._int_operand(o)
        return SR.__sub__(self, o) if t is None else self._fit(self.e - t, b)

    def __rsub__(self, o):
        t, b = self._int_operand(o)
        return SR.__rsub__(self, o) if t is None else self._fit(t - self.e, b)

    def __mul__(self, o):
        t, b = self._int_operand(o)
        return SR.__mul__(self, o) if t is None else self._fit(self.e * t, b)

    __rmul__ = __mul__

    def __neg__(self):
        return self._fit(-self.e, self.bits)

    def __pos__(self):
        return self

    def __abs__(self):
        return self._fit(z3.If(self.e >= 0, self.e, -self.e), self.bits)

    def __pow__(self, o):
        if isinstance(o, (int, np.integer)) and not isinstance(o, (bool, np.bool_)) and 0 <= int(o) <= 4:
            r = SW(z3.RealVal(1), self.bits)
            for _ in range(int(o)):
                r = r * self
            return r
        return SR.__pow__(SR(self.e), o)


class SI:
    """symbolic (mathematical) integer"""
    __slots__ = ('e',)

    def __init__(self, e):
        self.e = e

    @staticmethod
    def t(o):
        if isinstance(o, SI):
            return o.e
        if isinstance(o, (bool, np.bool_)):
            return z3.IntVal(int(o))
        if isinstance(o, (int, np.integer)):
            return z3.IntVal(int(o))
        raise Unsupported('integer operation with %r' % type(o))

    def __add__(self, o):
        return SI(self.e + SI.t(o))

    __radd__ = __add__

    def __sub__(self, o):
        return SI(self.e - SI.t(o))

    def __rsub__(self, o):
        return SI(SI.t(o) - self.e)

    def __mul__(self, o):
        return SI(self.e * SI.t(o))

    __rmul__ = __mul__

    @staticmethod
    def _pos_divisor(o):
        """z3 div/mod agree with python's // and % for positive divisors only"""
        if isinstance(o, (int, np.integer)):
            if int(o) <= 0:
                raise Unsupported('division by a non-positive constant')
            return z3.IntVal(int(o))
        if isinstance(o, SI):
            r, _ = ST.ex.solver_check(ST.path.pc + [o.e <= 0], timeout_ms=5000)
            if r != 'unsat':
                raise Unsupported('integer division by a symbolic divisor that may be non-positive')
            return o.e
        raise Unsupported('integer division by %r' % type(o))

    def __floordiv__(self, o):
        return SI(self.e / SI._pos_divisor(o))

    def __rfloordiv__(self, o):
        return SI(SI.t(o) / SI._pos_divisor(self))

    def __mod__(self, o):
        return SI(self.e % SI._pos_divisor(o))

    def __rmod__(self, o):
        return SI(SI.t(o) % SI._pos_divisor(self))

    def __neg__(self):
        return SI(-self.e)

    def __lt__(self, o):
        return sb(self.e < SI.t(o))

    def __le__(self, o):
        return sb(self.e <= SI.t(o))

    def __gt__(self, o):
        return sb(self.e > SI.t(o))

    def __ge__(self, o):
        return sb(self.e >= SI.t(o))

    def __eq__(self, o):
        return sb(self.e == SI.t(o))

    def __ne__(self, o):
        return sb(self.e != SI.t(o))

    def __hash__(self):
        return id(self)

    def __index__(self):
        raise Unsupported('a symbolic integer used as an index / size')

    def __int__(self):
        raise Unsupported('int() of a symbolic integer')

    def __format__(self, spec):
        return 'SI'

    def __repr__(self):
        return 'SI(%s)' % self.e


class Rng:
    """model of np.arange(n)[start:start+length] for symbolic bounds: a contiguous range of integers"""

    def __init__(self, start, length):
        self.start, self.length = start, length

    def __len__(self):
        raise Unsupported('len() of a symbolic range')


def array_split_model(r, k):
    """documented behaviour of numpy.array_split on a 1-d array of length n: the first n % k sections have n // k + 1 elements,
    the others n // k (validated against the real numpy on every run)"""
    n = r.length
    q, rem = n // k, n % k
    out = []
    for i in range(k):
        extra = rem if isinstance(rem, int) else None
        if isinstance(n, int):
            start = i * q + min(i, rem)
            length = q + (1 if i < rem else 0)
        else:
            lt = (rem > i)
            mi = SI(z3.If(rem.e > i, z3.IntVal(i), rem.e))
            start = q * i + mi
            length = q + SI(z3.If(rem.e > i, z3.IntVal(1), z3.IntVal(0)))
        out.append(Rng(r.start + start, length))
    return out


def _nonfinite_arith(s, o, f, swap):
    if math.isnan(o):
        return o
    # +-inf with a finite symbolic value: only the sign-independent cases are supported
    probe = f(0.0, o) if not swap else f(o, 0.0)
    try:
        a = f(1.0, o) if not swap else f(o, 1.0)
        b = f(-1.0, o) if not swap else f(o, -1.0)
    except ZeroDivisionError:
        raise Unsupported('inf arithmetic')
    if (a == b) or (math.isnan(a) and math.isnan(b)):
        return a
    raise Unsupported('sign-dependent arithmetic between a symbolic value and an infinity')


DIVISORS = []


def note_division(t):
    """record divisors so that harnesses can assert they are non-zero on the path"""
    ST.path.notes.append(('divisor', t))


# ---------------------------------------------------------------------------- transcendental axioms

def mk_exp(t):
    t = z3.simplify(t)
    for (u, e) in ST.exps:
        if z3.eq(u, t):
            return e
    e = EXP(t)
    ax = [e > 0, e >= 1 + t, LOG(e) == t]
    for (u, eu) in ST.exps:
        ax.append((t < u) == (e < eu))
        ax.append((t == u) == (e == eu))
        if z3.is_true(z3.simplify(t + u == 0)):
            ax.append(e * eu == 1)
    # additive law exp(a) = exp(b)*exp(c) for syntactic a = b + c among the known arguments
    known = ST.exps + [(t, e)]
    if len(known) <= 10:
        for (a, ea) in known:
            for i, (b, eb) in enumerate(known):
                for (c, ec) in known[i:]:
                    if (a is t or b is t or c is t) and z3.is_true(z3.simplify(a - b - c == 0)):
                        ax.append(ea == eb * ec)
    ST.exps.append((t, e))
    ST.path.assume(z3.And(*ax))
    return e


def mk_log(t):
    t = z3.simplify(t)
    for (u, l) in ST.logs:
        if z3.eq(u, t):
            return l
    l = LOG(t)
    ax = [z3.Implies(t > 0, z3.And(EXP(l) == t, l <= t - 1, t * l >= t - 1))]
    for (u, lu) in ST.logs:
        ax.append(z3.Implies(z3.And(t > 0, u > 0), z3.And((t < u) == (l < lu), (t == u) == (l == lu))))
    ST.logs.append((t, l))
    ST.path.assume(z3.And(*ax))
    # EXP(LOG t) is an EXP application: register it so that it takes part in the pairwise axioms
    if not any(z3.eq(u, l) for (u, _) in ST.exps):
        ST.exps.append((l, EXP(l)))
        ST.path.assume(EXP(l) > 0)
    ST.path.notes.append(('log-arg', t))
    return l


def _free_consts(e, acc=None, seen=None):
    acc = {} if acc is None else acc
    seen = set() if seen is None else seen
    if e.get_id() in seen:
        return acc
    seen.add(e.get_id())
    if z3.is_const(e) and e.decl().kind() == z3.Z3_OP_UNINTERPRETED:
        acc[e.get_id()] = e
    for c in e.children():
        _free_consts(c, acc, seen)
    return acc


def _outer_apps(e, acc, seen):
    """outermost applications of uninterpreted functions (EXP, LOG, ...) and other non-polynomial operators"""
    if e.get_id() in seen:
        return
    seen.add(e.get_id())
    if not z3.is_app(e):
        return
    k = e.decl().kind()
    if k in (z3.Z3_OP_ADD, z3.Z3_OP_SUB, z3.Z3_OP_MUL, z3.Z3_OP_UMINUS, z3.Z3_OP_DIV, z3.Z3_OP_POWER):
        for c in e.children():
            _outer_apps(c, acc, seen)
    elif e.num_args() > 0:
        acc[e.get_id()] = e


def _abstract_pair(a, b):
    """a and b with every outermost non-polynomial sub-term replaced by one fresh constant per distinct sub-term (same table for both)"""
    acc = {}
    seen = set()
    _outer_apps(a, acc, seen)
    _outer_apps(b, acc, seen)
    if not acc:
        return a, b
    pairs = [(t, z3.Real('abs!%d' % i)) for i, t in enumerate(acc.values())]
    return z3.substitute(a, *pairs), z3.substitute(b, *pairs)


def _poly_identical(a, b):
    a, b = _abstract_pair(a, b)
    return _poly_identical0(a, b)


def _poly_identical0(a, b):
    """a == b as polynomials / rational functions with constant denominators (sum-of-monomials normal form); False when not shown"""
    try:
        return z3.is_true(z3.simplify(a - b == 0, som=True, som_blowup=100000))
    except z3.Z3Exception:
        return False


def _const_ratio(a, b):
    """positive rational k with a == k*b as polynomials, or None (guess k at a pseudo-random rational point, confirm symbolically)"""
    a, b = _abstract_pair(a, b)
    vs = list(_free_consts(a).values())
    if not vs:
        return None
    pt = [(v, z3.RealVal(Fraction(3 + 7 * i, 5 + 2 * i)) if z3.is_real(v) else z3.IntVal(3 + i)) for i, v in enumerate(vs)]
    try:
        av, bv = z3.simplify(z3.substitute(a, *pt)), z3.simplify(z3.substitute(b, *pt))
    except z3.Z3Exception:
        return None
    if not (z3.is_rational_value(av) and z3.is_rational_value(bv)):
        return None
    fa, fb = Fraction(av.numerator_as_long(), av.denominator_as_long()), Fraction(bv.numerator_as_long(), bv.denominator_as_long())
    if fb == 0 or fa == 0 or fa / fb <= 0:
        return None
    k = fa / fb
    return k if _poly_identical0(a, rv(k) * b) else None


def _const_sqrt(k):
    """sqrt of a positive rational as a term: exact when k is a rational square, otherwise a (memoised) constant root"""
    num, den = math.isqrt(k.numerator), math.isqrt(k.denominator)
    if num * num == k.numerator and den * den == k.denominator:
        return rv(Fraction(num, den))
    return mk_sqrt(rv(k))


def _obviously_nonneg(e, depth=0):
    """syntactic sufficient condition for e >= 0 (sums / products of squares and non-negative constants)"""
    if depth > 40:
        return False
    if z3.is_rational_value(e):
        return e.numerator_as_long() >= 0
    k = e.decl().kind()
    ch = e.children()
    if k == z3.Z3_OP_ADD:
        return all(_obviously_nonneg(c, depth + 1) for c in ch)
    if k == z3.Z3_OP_MUL:
        rest = list(ch)
        # pair up identical factors (squares); what is left must be non-negative on its own
        i = 0
        while i < len(rest):
            j = next((j for j in range(i + 1, len(rest)) if z3.eq(rest[i], rest[j])), None)
            if j is not None:
                del rest[j]
                del rest[i]
            else:
                i += 1
        return all(_obviously_nonneg(c, depth + 1) for c in rest)
    if k == z3.Z3_OP_POWER and z3.is_rational_value(ch[1]) and ch[1].denominator_as_long() == 1 and ch[1].numerator_as_long() % 2 == 0:
        return True
    if k == z3.Z3_OP_DIV and z3.is_rational_value(ch[1]) and ch[1].numerator_as_long() > 0:
        return _obviously_nonneg(ch[0], depth + 1)
    return False


def mk_sqrt(t):
    t = z3.simplify(t)
    for (u, s) in ST.sqrts:
        if z3.eq(u, t):
            return s
    known = list(ST.sqrts)
    if not z3.is_rational_value(t):
        # the same radicand written differently (e.g. the code's np.std and the definition's sum of squares / n) has the same root
        for (u, su) in known:
            if _poly_identical(t, u):
                ST.sqrts.append((t, su))
                return su
    s = fresh_real('sqrt')
    ST.sqrts.append((t, s))
    nn = _obviously_nonneg(t)
    imp = lambda ante, c: c if all(_obviously_nonneg(a) for a in ante) else z3.Implies(z3.And(*[a >= 0 for a in ante]), c)
    # the defining equation is kept as a separate, tagged assumption: when a query comes back `unknown` the runner retries without the
    # tagged equations (a weaker hypothesis set, so `unsat` there is still a proof); the laws below then carry the argument
    defeq = imp([t], s * s == t)
    ST.path.assume(defeq)
    if not hasattr(ST.path, 'heavy'):
        ST.path.heavy = {}            # id of the defining equation -> id of the root symbol
        ST.path.sqrt_linked = set()   # root symbols that take part in a multiplicative law
    ST.path.heavy[defeq.get_id()] = s.get_id()
    ax = [s >= 0, z3.Implies(t > 0, s > 0)]
    if not z3.is_rational_value(t) and len(known) <= 8:
        # multiplicative laws among the radicands on this path: sqrt(k*u) = sqrt(k) sqrt(u), sqrt(k*u*v) = sqrt(k) sqrt(u) sqrt(v)
        # (valid for u, v >= 0, which is part of each law's antecedent)
        nonconst = [(u, su) for (u, su) in known if not z3.is_rational_value(u)]
        for (u, su) in nonconst:
            k = _const_ratio(t, u)
            if k is not None:
                ax.append(imp([u], s == _const_sqrt(k) * su))
                ST.path.sqrt_linked.update([s.get_id(), su.get_id()])
        for i, (u, su) in enumerate(nonconst):
            for (v, sv) in nonconst[i:]:
                k = _const_ratio(t, u * v)
                if k is not None:
                    ax.append(imp([u, v], s == _const_sqrt(k) * su * sv))
                    ST.path.sqrt_linked.update([s.get_id(), su.get_id(), sv.get_id()])
            for (v, sv) in nonconst:
                k = _const_ratio(u, t * v)
                if k is not None:
                    ax.append(imp([t, v], su == _const_sqrt(k) * s * sv))
                    ST.path.sqrt_linked.update([s.get_id(), su.get_id(), sv.get_id()])
    ST.path.assume(z3.And(*ax))
    ST.path.notes.append(('sqrt-arg', t))
    return s


# ---------------------------------------------------------------------------- forward-mode AD

class Dual:
    """value + derivative w.r.t. one designated input (forward-mode automatic differentiation through the real code)"""
    __slots__ = ('v', 'd')


    def __init__(self, v, d):
        self.v, self.d = v, d

    @staticmethod
    def lift(o):
        if isinstance(o, Dual):
            return o
        return Dual(o, 0.0)

    def __add__(self, o):
        if isinstance(o, np.ndarray):
            return NotImplemented
        o = Dual.lift(o)
        return Dual(self.v + o.v, self.d + o.d)

    __radd__ = __add__

    def __sub__(self, o):
        if isinstance(o, np.ndarray):
            return NotImplemented
        o = Dual.lift(o)
        return Dual(self.v - o.v, self.d - o.d)

    def __rsub__(self, o):
        o = Dual.lift(o)
        return Dual(o.v - self.v, o.d - self.d)

    def __mul__(self, o):
        if isinstance(o, np.ndarray):
            return NotImplemented
        o = Dual.lift(o)
        return Dual(self.v * o.v, self.d * o.v + self.v * o.d)

    __rmul__ = __mul__

    def __truediv__(self, o):
        if isinstance(o, np.ndarray):
            return NotImplemented
        o = Dual.lift(o)
        return Dual(self.v / o.v, (self.d * o.v - self.v * o.d) / (o.v * o.v))

    def __rtruediv__(self, o):
        return Dual.lift(o) / self

    def __neg__(self):
        return Dual(-self.v, -self.d)

    def __pos__(self):
        return self

    def __abs__(self):
        pos = self.v >= 0
        return self if bool(pos) else -self

    def __pow__(self, o):
        if is_num(o) and float(o) == int(float(o)) and 1 <= int(float(o)) <= 4:
            r = self
            for _ in range(int(float(o)) - 1):
                r = r * self
            return r
        if isinstance(o, Dual):
            return (o * self.log()).exp()
        # d/dx u^c = c u^(c-1) u'
        return Dual(self.v ** o, o * self.v ** (o - 1) * self.d)

    def __rpow__(self, o):
        return (self * math_log(o)).exp()

    def _cmp(self, o, op):
        o = o.v if isinstance(o, Dual) else o
        return getattr(self.v, op)(o)

    def __lt__(self, o):
        return self._cmp(o, '__lt__')

    def __le__(self, o):
        return self._cmp(o, '__le__')

    def __gt__(self, o):
        return self._cmp(o, '__gt__')

    def __ge__(self, o):
        return self._cmp(o, '__ge__')

    def __eq__(self, o):
        return self._cmp(o, '__eq__')

    def __ne__(self, o):
        return self._cmp(o, '__ne__')

    def __hash__(self):
        return id(self)

    def __float__(self):
        raise Unsupported('float() of a dual number')

    def exp(self):
        e = self.v.exp() if hasattr(self.v, 'exp') else math.exp(self.v)
        return Dual(e, e * self.d)

    def log(self):
        l = self.v.log() if hasattr(self.v, 'log') else math.log(self.v)
        return Dual(l, self.d / self.v)

    def sqrt(self):
        s = self.v.sqrt() if hasattr(self.v, 'sqrt') else math.sqrt(self.v)
        return Dual(s, self.d / (2 * s))

    def conjugate(self):
        return self

    def sinh(self):
        return (self.exp() - (-self).exp()) / 2

    def cosh(self):
        return (self.exp() + (-self).exp()) / 2

    def tanh(self):
        a, b = self.exp(), (-self).exp()
        return (a - b) / (a + b)

    def arcsinh(self):
        return (self + (self * self + 1).sqrt()).log()

    def isnan(self):
        return False


def math_log(v):
    if isinstance(v, (SR, Dual)):
        return v.log()
    return math.log(v)


# ---------------------------------------------------------------------------- numpy / math proxies

class SymArray(np.ndarray):
    """object ndarray that refuses silent concretisation: astype(float) keeps the symbolic elements"""

    def astype(self, dtype, *a, **k):
        if self.dtype == object and (_has_sym(self) or KEEP_OBJECT[0]):
            dt = getattr(dtype, 'dtype', dtype)
            try:
                dt = np.dtype(dt)
            except TypeError:
                dt = None
            if dt is not None and dt.kind not in 'fcO' and not _has_sym(self):
                return np.asarray(self).astype(dt, *a, **k).view(np.ndarray)
            if dt is not None and dt.kind in 'fc':
                return self.copy()
            if dt is not None and dt.kind == 'O':
                return self.copy()
            raise Unsupported('astype(%s) on a symbolic array' % (dtype,))
        return np.asarray(self).astype(getattr(dtype, 'dtype', dtype), *a, **k).view(np.ndarray)


    def _cmp(self, o, op):
        # comparisons fork per element and return a real boolean array (needed for boolean indexing in the code under test)
        if self.dtype != object:
            return getattr(np.asarray(self), op)(o)
        import operator
        pyop = {'__lt__': operator.lt, '__le__': operator.le, '__gt__': operator.gt, '__ge__': operator.ge,
                '__eq__': operator.eq, '__ne__': operator.ne}[op]
        f = lambda u, v: bool(pyop(u, v))
        return _elementwise(f, np.asarray(self), o, otype=bool)

    def __lt__(self, o):
        return self._cmp(o, '__lt__')

    def __le__(self, o):
        return self._cmp(o, '__le__')

    def __gt__(self, o):
        return self._cmp(o, '__gt__')

    def __ge__(self, o):
        return self._cmp(o, '__ge__')

    def __eq__(self, o):
        return self._cmp(o, '__eq__')

    def __ne__(self, o):
        return self._cmp(o, '__ne__')

    __hash__ = None


KEEP_OBJECT = [False]   # during symbolic runs float conversions keep object arrays, so that later element assignments accept symbols


def _is_sym(v):
    return isinstance(v, (SR, SB, Dual, SI))


def _has_sym(a):
    if isinstance(a, np.ndarray):
        if a.dtype != object:
            return False
        return any(_is_sym(v) for v in a.flat)
    if isinstance(a, (list, tuple)):
        return any(_has_sym(v) for v in a)
    return _is_sym(a)


def _numeric(o):
    try:
        a = np.asarray(o)
    except Exception:
        return False
    return a.dtype.kind in 'fiu' and a.size <= 16


def symarray(vals):
    a = np.empty(len(vals), dtype=object)
    for i, v in enumerate(vals):
        a[i] = v
    return a.view(SymArray)


def _wrap(a):
    if isinstance(a, np.ndarray) and a.dtype == object and not isinstance(a, SymArray):
        return a.view(SymArray)
    return a


def _elementwise(f, *arrs, otype=object):
    arrs = [np.asarray(a, dtype=object) if not isinstance(a, np.ndarray) else a for a in arrs]
    b = np.broadcast(*arrs)
    out = np.empty(b.shape, dtype=otype)
    out.flat = [f(*vals) for vals in b]
    return _wrap(out) if otype == object else out


class _F64:
    """stand-in for np.float64: usable as a dtype and as a constructor that lets symbolic scalars through"""
    dtype = np.dtype('float64')

    def __call__(self, v=0.0):
        if _is_sym(v):
            return v
        if isinstance(v, np.ndarray) and v.dtype == object and _has_sym(v):
            if v.ndim == 0:
                return v.item()
            return v
        return np.float64(v)

    def __eq__(self, o):
        return o is self or o == np.float64

    def __hash__(self):
        return hash(np.float64)


class NPProxy(types.ModuleType):
    """numpy with the handful of functions that have no object-dtype loop (or would call float()) overridden"""

    def __init__(self):
        super().__init__('np_proxy')
        self.float64 = _F64()
        self.random = RandomProxy()

    def __getattr__(self, k):
        return getattr(np, k)

    # array construction: keep symbolic content in SymArray
    def array(self, obj, *a, **k):
        if _has_sym(obj):
            dt = k.pop('dtype', None)
            r = np.array(obj, dtype=object, **{kk: vv for kk, vv in k.items() if kk in ('copy', 'ndmin')})
            try:
                dt = np.dtype(dt) if dt is not None and not isinstance(dt, _F64) else None
            except TypeError:
                dt = None
            if dt is not None and dt.kind in 'iu':
                # fixed-width integers: the elements must be integer-valued and fit, later integer arithmetic must not wrap
                bits = dt.itemsize * 8
                for idx in np.ndindex(r.shape):
                    v = r[idx]
                    if isinstance(v, SR) and not isinstance(v, SW):
                        if not hasattr(ST.path, 'int_range'):
                            ST.path.int_range = []
                        lim = 2 ** (bits - 1)
                        ST.path.int_range.append(z3.And(z3.IsInt(v.e), v.e >= (-lim if dt.kind == 'i' else 0), v.e <= lim - 1))
                        r[idx] = SW(v.e, bits)
                    elif isinstance(v, SW):
                        r[idx] = SW(v.e, bits)
            return _wrap(r)
        if 'dtype' in k and isinstance(k['dtype'], _F64):
            k['dtype'] = np.float64
        return np.array(obj, *a, **k)

    def asarray(self, obj, *a, **k):
        if _has_sym(obj):
            return _wrap(np.asarray(obj, dtype=object))
        return np.asarray(obj, *a, **k)

    def atleast_1d(self, *objs):
        out = [(_wrap(np.atleast_1d(np.asarray(o, dtype=object))) if (_has_sym(o) or (KEEP_OBJECT[0] and _numeric(o))) else np.atleast_1d(o)) for o in objs]
        return out[0] if len(out) == 1 else out

    def atleast_2d(self, *objs):
        out = [(_wrap(np.atleast_2d(np.asarray(o, dtype=object))) if _has_sym(o) else np.atleast_2d(o)) for o in objs]
        return out[0] if len(out) == 1 else out

    def arange(self, *a, **k):
        if len(a) == 1 and isinstance(a[0], SI):
            return Rng(0, a[0])
        return np.arange(*a, **k)

    def array_split(self, ary, k, *a, **kw):
        if isinstance(ary, Rng):
            return array_split_model(ary, int(k))
        return np.array_split(ary, k, *a, **kw)

    def isnan(self, x):
        if _is_sym(x):
            return False
        if isinstance(x, np.ndarray) and x.dtype == object:
            return _elementwise(lambda v: (not _is_sym(v)) and isinstance(v, (float, np.floating)) and math.isnan(v), x, otype=bool)
        return np.isnan(x)

    def isinf(self, x):
        if _is_sym(x):
            return False
        if isinstance(x, np.ndarray) and x.dtype == object:
            return _elementwise(lambda v: (not _is_sym(v)) and isinstance(v, (float, np.floating)) and math.isinf(v), x, otype=bool)
        return np.isinf(x)

    def isfinite(self, x):
        if _is_sym(x):
            return True
        if isinstance(x, np.ndarray) and x.dtype == object:
            return _elementwise(lambda v: _is_sym(v) or math.isfinite(v), x, otype=bool)
        return np.isfinite(x)

    def isclose(self, a, b, rtol=1e-5, atol=1e-8, **k):
        if _has_sym(a) or _has_sym(b):
            return _elementwise(lambda u, v: abs(u - v) <= atol + rtol * abs(v), a, b) if (
                isinstance(a, np.ndarray) or isinstance(b, np.ndarray)) else (abs(a - b) <= atol + rtol * abs(b))
        return np.isclose(a, b, rtol=rtol, atol=atol, **k)

    def allclose(self, a, b, rtol=1e-5, atol=1e-8, equal_nan=False):
        if _has_sym(a) or _has_sym(b):
            aa = list(np.broadcast_arrays(np.asarray(a, dtype=object), np.asarray(b, dtype=object))[0].flat)
            bb = list(np.broadcast_arrays(np.asarray(a, dtype=object), np.asarray(b, dtype=object))[1].flat)
            isn = lambda v: (not _is_sym(v)) and isinstance(v, (float, np.floating)) and math.isnan(v)
            isi = lambda v: (not _is_sym(v)) and isinstance(v, (float, np.floating)) and math.isinf(v)
            for u, v in zip(aa, bb):
                if isn(u) or isn(v):
                    if not (equal_nan and isn(u) and isn(v)):
                        return False
                    continue
                if isi(u) or isi(v):
                    # numpy: infinities are close only to the same infinity
                    if not (isi(u) and isi(v) and float(u) == float(v)):
                        return False
                    continue
                if not bool(abs(u - v) <= atol + rtol * abs(v)):
                    return False
            return True
        return np.allclose(a, b, rtol=rtol, atol=atol, equal_nan=equal_nan)

    def where(self, c, *ab):
        if not ab:
            return np.where(c)
        a, b = ab
        if _has_sym(c) or _has_sym(a) or _has_sym(b):
            return _elementwise(lambda cc, u, v: u if bool(cc) else v, c, a, b)
        return np.where(c, a, b)

    def clip(self, x, lo, hi, **k):
        # numpy clips OBJECT arrays with Python comparisons, which turn NaN into a bound; float arrays keep NaN: object arrays of plain
        # numbers (kept as objects during symbolic runs) go through the element-wise rule as well
        if _has_sym(x) or _has_sym(lo) or _has_sym(hi) or any(isinstance(v, np.ndarray) and v.dtype == object for v in (x, lo, hi)):
            def cl(v, l, h):
                if not _is_sym(v) and isinstance(v, (float, np.floating)) and math.isnan(v):
                    return v
                if bool(v < l):
                    return l
                if bool(v > h):
                    return h
                return v
            return _elementwise(cl, x, lo, hi)
        return np.clip(x, lo, hi, **k)

    def maximum(self, a, b, **k):
        if _has_sym(a) or _has_sym(b):
            f = lambda u, v: u if bool(u >= v) else v
            if isinstance(a, np.ndarray) or isinstance(b, np.ndarray):
                return _elementwise(f, a, b)
            return f(a, b)
        return np.maximum(a, b, **k)

    def minimum(self, a, b, **k):
        if _has_sym(a) or _has_sym(b):
            f = lambda u, v: u if bool(u <= v) else v
            if isinstance(a, np.ndarray) or isinstance(b, np.ndarray):
                return _elementwise(f, a, b)
            return f(a, b)
        return np.minimum(a, b, **k)

    def sign(self, x):
        if _has_sym(x):
            f = lambda v: (1.0 if bool(v > 0) else (-1.0 if bool(v < 0) else 0.0))
            return _elementwise(f, x) if isinstance(x, np.ndarray) else f(x)
        return np.sign(x)

    def abs(self, x):
        if _has_sym(x):
            f = lambda v: (v if bool(v >= 0) else -v) if _is_sym(v) else abs(v)
            return _elementwise(f, x) if isinstance(x, np.ndarray) else f(x)
        return np.abs(x)

    absolute = abs

    def _unary(name):
        def f(self, x, *a, **k):
            if _has_sym(x):
                g = lambda v: getattr(v, name)() if _is_sym(v) else getattr(math, {'arcsinh': 'asinh'}.get(name, name))(v)
                return _elementwise(g, x) if isinstance(x, np.ndarray) else g(x)
            return getattr(np, name)(x, *a, **k)
        return f

    exp = _unary('exp')
    log = _unary('log')
    sqrt = _unary('sqrt')
    sinh = _unary('sinh')
    tanh = _unary('tanh')
    arcsinh = _unary('arcsinh')

    def power(self, a, b, **k):
        if _has_sym(a) or _has_sym(b):
            f = lambda u, v: u ** v
            if isinstance(a, np.ndarray) or isinstance(b, np.ndarray):
                return _elementwise(f, a, b)
            return f(a, b)
        return np.power(a, b, **k)

    def any(self, x, *a, **k):
        if _has_sym(x):
            if a or k:
                raise Unsupported('np.any with axis on symbolic data')
            for v in np.asarray(x, dtype=object).flat:
                if bool(v):
                    return True
            return False
        return np.any(x, *a, **k)

    def all(self, x, *a, **k):
        if _has_sym(x):
            if a or k:
                raise Unsupported('np.all with axis on symbolic data')
            for v in np.asarray(x, dtype=object).flat:
                if not bool(v):
                    return False
            return True
        return np.all(x, *a, **k)

    def ones_like(self, x, *a, **k):
        if _has_sym(x):
            return _elementwise(lambda v: 1.0, x)
        return np.ones_like(x, *a, **k)

    def zeros(self, shape, *a, **k):
        r = np.zeros(shape, *a, **k)
        if KEEP_OBJECT[0] and r.ndim <= 2 and r.dtype.kind == 'f' and r.size <= 64:
            return _wrap(r.astype(object))
        return r

    def linspace(self, start, stop, num=50, **k):
        if _has_sym(start) or _has_sym(stop):
            num = int(num)
            if num == 1:
                return symarray([start])
            return symarray([start + (stop - start) * i / (num - 1) for i in range(num)])
        return np.linspace(start, stop, num, **k)

    def ones(self, shape, *a, **k):
        r = np.ones(shape, *a, **k)
        if KEEP_OBJECT[0] and r.ndim == 1 and r.dtype.kind == 'f' and r.size <= 16:
            return _wrap(r.astype(object))
        return r

    def zeros_like(self, x, *a, **k):
        if _has_sym(x):
            return _elementwise(lambda v: 0.0, x)
        return np.zeros_like(x, *a, **k)

    def sum(self, x, *a, **k):
        r = np.sum(x, *a, **k)
        return _wrap(r) if isinstance(r, np.ndarray) else r

    def prod(self, x, *a, **k):
        r = np.prod(x, *a, **k)
        return _wrap(r) if isinstance(r, np.ndarray) else r

    def mean(self, x, *a, **k):
        if _has_sym(x):
            x = np.asarray(x, dtype=object)
            axis = k.get('axis', a[0] if a else None)
            if axis is None:
                return np.sum(x) / x.size
            return _wrap(np.sum(x, axis=axis) / x.shape[axis])
        return np.mean(x, *a, **k)

    def corrcoef(self, a, b=None, **k):
        if _has_sym(a) or _has_sym(b):
            a = list(np.asarray(a, dtype=object).flat)
            b = list(np.asarray(b, dtype=object).flat)
            n = len(a)
            ma, mb = sum(a[1:], a[0]) / n, sum(b[1:], b[0]) / n
            cab = sum([(x - ma) * (y - mb) for x, y in zip(a, b)][1:], (a[0] - ma) * (b[0] - mb))
            va = sum([(x - ma) * (x - ma) for x in a][1:], (a[0] - ma) * (a[0] - ma))
            vb = sum([(y - mb) * (y - mb) for y in b][1:], (b[0] - mb) * (b[0] - mb))
            den = (va * vb)
            r = cab / (den.sqrt() if _is_sym(den) else math.sqrt(den))
            out = np.empty((2, 2), dtype=object)
            out[0, 0] = out[1, 1] = 1.0
            out[0, 1] = out[1, 0] = r
            return out
        return np.corrcoef(a, b, **k)

    def nanmedian(self, x, *a, **k):
        if _has_sym(x):
            x = np.asarray(x, dtype=object)
            axis = k.get('axis', a[0] if a else None)
            if x.ndim == 2 and axis == 1 and x.shape[1] <= 2:
                return _wrap(np.array([row[0] if len(row) == 1 else (row[0] + row[1]) / 2 for row in x], dtype=object))
            raise Unsupported('nanmedian of more than two symbolic columns')
        return np.nanmedian(x, *a, **k)

    def interp(self, x, xp, fp, *a, **k):
        """piecewise-linear interpolation of a symbolic scalar in concrete tables (clamped at both ends, as numpy does): the interval is
        found by bisection, every comparison is a fork"""
        if isinstance(x, np.ndarray) and x.dtype == object and x.ndim == 0:
            x = x.item()
        if _is_sym(x) and not _has_sym(xp) and not _has_sym(fp) and not a and not k:
            if isinstance(x, Dual):
                raise Unsupported('interp of a dual number')
            xp, fp = [float(v) for v in np.asarray(xp).flat], [float(v) for v in np.asarray(fp).flat]
            if len(xp) != len(fp) or not xp or any(b <= a_ for a_, b in zip(xp, xp[1:])):
                raise Unsupported('interp tables must be strictly increasing and of equal length')
            if x <= xp[0]:
                return fp[0]
            if x >= xp[-1]:
                return fp[-1]
            lo, hi = 0, len(xp) - 1
            while hi - lo > 1:
                mid = (lo + hi) // 2
                if x < xp[mid]:
                    hi = mid
                else:
                    lo = mid
            w = (x - xp[lo]) / Fraction(xp[hi] - xp[lo]) if False else (x - xp[lo]) * (1 / (Fraction(xp[hi]) - Fraction(xp[lo])))
            return Fraction(fp[lo]) + w * (Fraction(fp[hi]) - Fraction(fp[lo]))
        if _has_sym(x) or _has_sym(xp) or _has_sym(fp):
            raise Unsupported('interp with symbolic tables / array argument')
        return np.interp(x, xp, fp, *a, **k)

    def nanmean(self, x, *a, **k):
        if _has_sym(x):
            def one(seq):
                vals = [v for v in seq if _is_sym(v) or not math.isnan(v)]
                if not vals:
                    return float('nan')
                s = vals[0]
                for v in vals[1:]:
                    s = s + v
                return s / len(vals)
            x = np.asarray(x, dtype=object)
            axis = k.get('axis', a[0] if a else None)
            if axis is None:
                return one(list(x.flat))
            if x.ndim == 2 and axis in (0, 1):
                rows = x if axis == 1 else x.T
                return _wrap(np.array([one(list(r)) for r in rows] + [None], dtype=object)[:-1])
            raise Unsupported('nanmean over axis %r of a %d-d symbolic array' % (axis, x.ndim))
        return np.nanmean(x, *a, **k)

    def std(self, x, *a, **k):
        if _has_sym(x):
            x = np.asarray(x, dtype=object)
            ddof = k.get('ddof', 0)
            m = np.sum(x) / x.size
            v = np.sum((x - m) * (x - m)) / (x.size - ddof)
            return v.sqrt() if _is_sym(v) else math.sqrt(v)
        return np.std(x, *a, **k)

    def var(self, x, *a, **k):
        if _has_sym(x):
            x = np.asarray(x, dtype=object)
            ddof = k.get('ddof', 0)
            m = np.sum(x) / x.size
            return np.sum((x - m) * (x - m)) / (x.size - ddof)
        return np.var(x, *a, **k)


class RandomProxy:
    """randomness stub: arbitrary values of the documented range"""

    def uniform(self, low=0.0, high=1.0, size=None):
        def one():
            v = SR(fresh_real('unif'))
            assume(z3.And(v.e >= term(low), v.e < term(high)) if not (is_num(low) and is_num(high) and low == high) else v.e == term(low))
            return v
        if size is None:
            return one()
        n = int(np.prod(size))
        return symarray([one() for _ in range(n)]).reshape(size)

    def exponential(self, scale=1.0, size=None):
        def one():
            v = SR(fresh_real('expo'))
            assume(v.e >= 0)
            return v
        if size is None:
            return one()
        return symarray([one() for _ in range(int(np.prod(size)))]).reshape(size)

    def normal(self, loc=0.0, scale=1.0, size=None):
        def one():
            return SR(fresh_real('norm'))
        if size is None:
            return one()
        return symarray([one() for _ in range(int(np.prod(size)))]).reshape(size)

    def permutation(self, n):
        """every permutation of range(n) is explored: the choice is made by unconstrained fresh booleans, so each one forks the path"""
        n = int(n)
        remaining = list(range(n))
        out = []
        while remaining:
            pick = 0
            while pick < len(remaining) - 1:
                ST.nfresh += 1
                if bool(SB(z3.Bool('perm!%d' % ST.nfresh))):
                    break
                pick += 1
            out.append(remaining.pop(pick))
        return np.array(out, dtype=int)

    def __getattr__(self, k):
        raise Unsupported('np.random.%s on the symbolic path' % k)


class MathProxy(types.ModuleType):
    def __init__(self):
        super().__init__('math_proxy')

    def __getattr__(self, k):
        return getattr(math, k)

    def exp(self, v):
        return v.exp() if _is_sym(v) else math.exp(v)

    def log(self, v, *a):
        if _is_sym(v):
            if a:
                return v.log() / math_log(a[0])
            return v.log()
        return math.log(v, *a)

    def sqrt(self, v):
        return v.sqrt() if _is_sym(v) else math.sqrt(v)

    def isnan(self, v):
        return False if _is_sym(v) else math.isnan(v)

    def isfinite(self, v):
        return True if _is_sym(v) else math.isfinite(v)


NPX = NPProxy()
MATHX = MathProxy()


_MISSING = object()


def _sym_type(x):
    t = type(x)
    if t in (SR, Dual, SB):
        return lambda y: y
    if t in (float, int):
        def conv(y):
            if _is_sym(y):
                return y
            if isinstance(y, np.ndarray) and y.dtype == object and y.size == 1 and _is_sym(y.flat[0]):
                return y.flat[0]
            return t(y)
        return conv
    return t


class _SymFloat:
    """stands for the builtin `float` inside the modules under symbolic execution: float(symbolic) passes the value through instead of
    concretising it; used as a dtype (x.astype(float), np.zeros(n, dtype=float)) it is float64 (numpy reads the `dtype` attribute)"""
    dtype = np.dtype('float64')

    def __call__(self, v=0.0):
        if isinstance(v, SW):
            return SR(v.e)        # float(int64 scalar): leaves the fixed-width integer type
        if _is_sym(v):
            return v
        if isinstance(v, np.ndarray) and v.dtype == object and v.size == 1 and _is_sym(v.flat[0]):
            return v.flat[0]
        return float(v)


_sym_float = _SymFloat()


class patched:
    """context manager: replace the module globals np / math of the given hydrodiy modules by the proxies"""

    def __init__(self, *mods):
        self.mods = mods
        self.saved = []

    def __enter__(self):
        self.keep = KEEP_OBJECT[0]
        KEEP_OBJECT[0] = True
        for m in self.mods:
            for name, proxy in (('np', NPX), ('math', MATHX)):
                if hasattr(m, name):
                    self.saved.append((m, name, getattr(m, name)))
                    setattr(m, name, proxy)
            if m.__name__.endswith(('sutils', 'boxplot', 'metrics')):
                self.saved.append((m, 'float', _MISSING))
                m.float = _sym_float
            if m.__name__.endswith('dutils'):
                # dutils.cast does type(x)(y): for a python float x and a symbolic y the value passes through unchanged
                self.saved.append((m, 'type', _MISSING))
                m.type = _sym_type
        return self

    def __exit__(self, *a):
        KEEP_OBJECT[0] = self.keep
        for m, name, old in self.saved:
            if old is _MISSING:
                delattr(m, name)
            else:
                setattr(m, name, old)
        self.saved = []


# ---------------------------------------------------------------------------- exploration

def explore(body, ex=None, max_paths=2000, deadline=None):
    """run body() on every feasible path.  body returns any result; yields (path, result or exception)"""
    import time
    ex = ex or Exec(None, timeout_ms=10000)
    stack = [([], None)]
    n = 0
    while stack and n < max_paths:
        if deadline is not None and time.time() > deadline:
            yield None, 'time-budget'
            return
        dec, model = stack.pop()
        path = Path(dec, model)
        start_path(ex, path)
        try:
            res = body()
            err = None
        except Unsupported:
            raise
        except Exception as e:   # an exception raised by the code under test on this path
            res, err = None, e
        for i in range(len(dec), len(path.dec)):
            if path.alt[i] is not None:
                stack.append((path.dec[:i] + [not path.dec[i]], None if path.alt[i] == 'unknown' else path.alt[i]))
        n += 1
        yield path, (res, err)
    if stack:
        # the path cap was reached with prefixes still pending: never a silent pass
        yield None, 'max-paths'


def check(ex, path, cond, timeout_ms=None):
    """is `cond` valid on this path?  returns ('unsat'|'sat'|'unknown', model)"""
    if isinstance(cond, SB):
        cond = cond.e
    if isinstance(cond, bool):
        return ('unsat', None) if cond else ex.solver_check(path.pc, timeout_ms=timeout_ms)
    return ex.solver_check(path.pc + [z3.Not(cond)], timeout_ms=timeout_ms)


def value_of(model, v):
    """concrete float of a symbolic / concrete scalar under a model"""
    from engine.llir.xr import frac_of
    if isinstance(v, SR):
        return float(frac_of(model, v.e))
    if isinstance(v, SB):
        return z3.is_true(model.eval(v.e, model_completion=True))
    if isinstance(v, Dual):
        return value_of(model, v.v)
    if z3.is_expr(v):
        return float(frac_of(model, v))
    return v


# ---------------------------------------------------------------------------- concrete evaluation of z3 terms (EXP/LOG interpreted)

def eval_term(t, env):
    """float / bool value of a z3 term under env {symbol name: python value}; EXP, LOG are the real exp / log.
    Raises KeyError for an unknown symbol (e.g. a fresh variable introduced during the run)."""
    k = t.decl().kind()
    name = t.decl().name()
    if z3.is_int_value(t):
        return t.as_long()
    if z3.is_rational_value(t):
        return t.numerator_as_long() / t.denominator_as_long()
    if z3.is_true(t):
        return True
    if z3.is_false(t):
        return False
    if z3.is_const(t) and k == z3.Z3_OP_UNINTERPRETED:
        return env[name]
    a = [eval_term(c, env) for c in t.children()]
    if k == z3.Z3_OP_ADD:
        return sum(a)
    if k == z3.Z3_OP_SUB:
        r = a[0]
        for v in a[1:]:
            r = r - v
        return r
    if k == z3.Z3_OP_UMINUS:
        return -a[0]
    if k == z3.Z3_OP_MUL:
        r = 1.0
        for v in a:
            r = r * v
        return r
    if k in (z3.Z3_OP_DIV, z3.Z3_OP_IDIV):
        return a[0] / a[1] if k == z3.Z3_OP_DIV else a[0] // a[1]
    if k == z3.Z3_OP_POWER:
        return a[0] ** a[1]
    if k == z3.Z3_OP_ITE:
        return a[1] if a[0] else a[2]
    if k == z3.Z3_OP_LE:
        return a[0] <= a[1]
    if k == z3.Z3_OP_LT:
        return a[0] < a[1]
    if k == z3.Z3_OP_GE:
        return a[0] >= a[1]
    if k == z3.Z3_OP_GT:
        return a[0] > a[1]
    if k == z3.Z3_OP_EQ:
        return a[0] == a[1]
    if k == z3.Z3_OP_DISTINCT:
        return len(set(a)) == len(a)
    if k == z3.Z3_OP_AND:
        return all(a)
    if k == z3.Z3_OP_OR:
        return any(a)
    if k == z3.Z3_OP_NOT:
        return not a[0]
    if k == z3.Z3_OP_IMPLIES:
        return (not a[0]) or a[1]
    if k == z3.Z3_OP_XOR:
        return bool(a[0]) != bool(a[1])
    if k in (z3.Z3_OP_TO_REAL, z3.Z3_OP_TO_INT):
        return a[0] if k == z3.Z3_OP_TO_REAL else math.floor(a[0])
    if k == z3.Z3_OP_IS_INT:
        return float(a[0]) == math.floor(a[0])
    if k == z3.Z3_OP_UNINTERPRETED and name == 'EXP':
        try:
            return math.exp(a[0])
        except OverflowError:
            return math.inf
    if k == z3.Z3_OP_UNINTERPRETED and name == 'LOG':
        return math.log(a[0]) if a[0] > 0 else math.nan
    raise KeyError('cannot evaluate %s' % t.decl())
