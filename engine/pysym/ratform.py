"""Rational-function normal form for the equality atoms of a claim.

z3 treats `a / b` with a symbolic divisor by introducing a product constraint per division; a claim such as
"(1 + s/(1-s)) / p  ==  (1/x0 + c) * (1/x1 + c) - c*c" with nested divisions often comes back `unknown` from nlsat although, after clearing
denominators, it is a polynomial identity that the simplifier closes at once.  `strengthen(c)` rewrites every equality atom in POSITIVE
polarity `a == b` into the stronger `dens != 0  and  na*db == nb*da`; proving the stronger claim proves the original one (for non-zero
denominators a == na/da), so an `unsat` answer for `pc and not strengthen(c)` is still a proof of `pc -> c`.  Atoms in negative polarity
(antecedents) are left alone."""
import z3

MAX_NODES = 4000


class _Abort(Exception):
    pass


def _is_one(e):
    return z3.is_rational_value(e) and e.numerator_as_long() == 1 and e.denominator_as_long() == 1


def _mul(a, b):
    if _is_one(a):
        return b
    if _is_one(b):
        return a
    return a * b


def ratform(e, nz, cache, budget):
    """(num, den) with e == num/den whenever every term in nz is non-zero; sub-terms that are not +,-,*,/ are atoms"""
    k = e.get_id()
    if k in cache:
        return cache[k]
    budget[0] -= 1
    if budget[0] < 0:
        raise _Abort()
    one = z3.RealVal(1)
    kind = e.decl().kind() if z3.is_app(e) else None
    ch = e.children() if z3.is_app(e) else []
    if kind == z3.Z3_OP_ADD:
        n, d = ratform(ch[0], nz, cache, budget)
        for c in ch[1:]:
            n2, d2 = ratform(c, nz, cache, budget)
            if z3.eq(d, d2):
                n = n + n2
            else:
                n, d = _mul(n, d2) + _mul(n2, d), _mul(d, d2)
        r = (n, d)
    elif kind == z3.Z3_OP_SUB:
        n, d = ratform(ch[0], nz, cache, budget)
        for c in ch[1:]:
            n2, d2 = ratform(c, nz, cache, budget)
            if z3.eq(d, d2):
                n = n - n2
            else:
                n, d = _mul(n, d2) - _mul(n2, d), _mul(d, d2)
        r = (n, d)
    elif kind == z3.Z3_OP_UMINUS:
        n, d = ratform(ch[0], nz, cache, budget)
        r = (-n, d)
    elif kind == z3.Z3_OP_MUL:
        n, d = one, one
        for c in ch:
            n2, d2 = ratform(c, nz, cache, budget)
            n, d = _mul(n, n2), _mul(d, d2)
        r = (n, d)
    elif kind == z3.Z3_OP_DIV:
        n1, d1 = ratform(ch[0], nz, cache, budget)
        n2, d2 = ratform(ch[1], nz, cache, budget)
        if z3.is_rational_value(ch[1]):
            if ch[1].numerator_as_long() == 0:
                raise _Abort()
            r = (n1, _mul(d1, ch[1]))
        else:
            nz.append(n2)
            r = (_mul(n1, d2), _mul(d1, n2))
    elif kind == z3.Z3_OP_POWER and z3.is_rational_value(ch[1]) and ch[1].denominator_as_long() == 1 and 0 <= ch[1].numerator_as_long() <= 6:
        n1, d1 = ratform(ch[0], nz, cache, budget)
        n, d = one, one
        for _ in range(ch[1].numerator_as_long()):
            n, d = _mul(n, n1), _mul(d, d1)
        r = (n, d)
    else:
        r = (e, one)
    if not _is_one(r[1]) and not z3.is_rational_value(r[1]):
        pass
    cache[k] = r
    return r


def _has_symbolic_div(e, seen):
    if e.get_id() in seen:
        return False
    seen.add(e.get_id())
    if z3.is_app(e) and e.decl().kind() == z3.Z3_OP_DIV and not z3.is_rational_value(e.arg(1)):
        return True
    return any(_has_symbolic_div(c, seen) for c in e.children())


def _atom(e):
    """stronger replacement of the positive equality atom a == b, or None"""
    a, b = e.arg(0), e.arg(1)
    if not (z3.is_real(a) and z3.is_real(b)):
        return None
    if not (_has_symbolic_div(a, set()) or _has_symbolic_div(b, set())):
        return None
    nz, cache, budget = [], {}, [MAX_NODES]
    try:
        na, da = ratform(a, nz, cache, budget)
        nb, db = ratform(b, nz, cache, budget)
    except _Abort:
        return None
    conds = []
    seen = set()
    for t in nz:
        if t.get_id() not in seen and not z3.is_rational_value(t):
            seen.add(t.get_id())
            conds.append(t != 0)
    eq = z3.simplify(_mul(na, db) - _mul(nb, da) == 0, som=True, som_blowup=100000)
    return z3.And(*(conds + [eq])) if conds else eq


def strengthen(c, positive=True):
    """formula that implies c (equal to c when nothing applies)"""
    if not z3.is_app(c) or not z3.is_bool(c):
        return c
    k = c.decl().kind()
    ch = c.children()
    if k == z3.Z3_OP_AND:
        return z3.And(*[strengthen(x, positive) for x in ch])
    if k == z3.Z3_OP_OR:
        return z3.Or(*[strengthen(x, positive) for x in ch])
    if k == z3.Z3_OP_NOT:
        return z3.Not(strengthen(ch[0], not positive))
    if k == z3.Z3_OP_IMPLIES:
        return z3.Implies(strengthen(ch[0], not positive), strengthen(ch[1], positive))
    if k == z3.Z3_OP_EQ and positive and not z3.is_bool(ch[0]):
        r = _atom(c)
        return c if r is None else r
    return c
