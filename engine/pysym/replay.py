"""vf replay for engine-B counterexamples: re-run the recorded case on the real float code"""
import importlib
import json
from engine.pysym import runner


def main(rec, path):
    h = importlib.import_module(rec['module'])
    cases = [c for t in ('quick', 'thorough') for c in h.cases(t) if c.name == rec['case']]
    if not cases:
        print('case %s not found' % rec['case'])
        return 2
    case = cases[0]
    from engine.llir.harness import unjson
    Ic = unjson(rec['inputs'])
    failed, O, err = runner.eval_concrete(case, Ic)
    print('inputs: %s\nobserved: %s\nerror: %r\nfailed assertions: %s' % (json.dumps(rec['inputs']), json.dumps(runner.jsonable(O)) if O is not None else None, err, failed))
    if failed:
        print('VIOLATION property=%s replay=%s' % (rec['property'], path))
        return 1
    print('not reproduced on the current tree')
    return 0
