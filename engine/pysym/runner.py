"""Case runner for engine B: explores the paths of a case, discharges its obligations with z3, replays candidates on the
real float code, applies known findings; returns a part summary compatible with engine.run.finish."""
import hashlib
import json
import math
import multiprocessing as mp
import os
import time
import traceback

import numpy as np
import z3

from engine.llir.interp import Exec
from engine.pysym import core
from engine.pysym.core import SR, SB, SI, Dual, Unsupported

ROOT = os.path.normpath(os.path.join(os.path.dirname(__file__), '..', '..'))


class Case:
    prop = None
    name = None
    tol = 1e-6
    time_budget = {'quick': 60, 'thorough': 300}
    query_timeout_ms = {'quick': 10000, 'thorough': 40000}
    known = ()          # (known id, labels, predicate(Ic) -> bool, symbolic predicate(I) -> z3 Bool or None)
    max_models = 4

    def modules(self):
        """hydrodiy modules whose np/math globals are replaced during the symbolic run"""
        return []

    def inputs(self):
        """create symbolic inputs (core.SR ...) and register assumptions with core.assume; returns dict"""
        raise NotImplementedError

    def run(self, I):
        """execute the real code; must work for symbolic and concrete I"""
        raise NotImplementedError

    def spec(self, I, O, err):
        """list of (label, condition); conditions are SB / z3 Bool / python bool. `err` is the exception raised by run (or None)"""
        raise NotImplementedError

    def describe(self):
        return self.name


def sym_leaves(v, out):
    if isinstance(v, dict):
        for x in v.values():
            sym_leaves(x, out)
    elif isinstance(v, (list, tuple)):
        for x in v:
            sym_leaves(x, out)
    elif isinstance(v, np.ndarray):
        for x in v.flat:
            sym_leaves(x, out)
    elif isinstance(v, (SR, SI)):
        out.append(v.e)
    elif z3.is_expr(v):
        out.append(v)
    return out


def concretize(v, model):
    if isinstance(v, dict):
        return {k: concretize(x, model) for k, x in v.items()}
    if isinstance(v, (list, tuple)):
        return [concretize(x, model) for x in v]
    if isinstance(v, np.ndarray):
        if v.dtype == object:
            return np.array([concretize(x, model) for x in v.flat], dtype=float).reshape(v.shape)
        return v
    if isinstance(v, (SR, SB)):
        return core.value_of(model, v)
    if isinstance(v, SI):
        return model.eval(v.e, model_completion=True).as_long()
    if z3.is_expr(v):
        r = model.eval(v, model_completion=True)
        if z3.is_int_value(r):
            return r.as_long()
        if z3.is_bool(r):
            return z3.is_true(r)
        return core.value_of(model, v)
    return v


def jsonable(v):
    if isinstance(v, dict):
        return {str(k): jsonable(x) for k, x in v.items()}
    if isinstance(v, (list, tuple)):
        return [jsonable(x) for x in v]
    if isinstance(v, np.ndarray):
        return jsonable(v.tolist())
    if isinstance(v, (float, np.floating)):
        v = float(v)
        return 'nan' if math.isnan(v) else ('inf' if v == math.inf else ('-inf' if v == -math.inf else v))
    if isinstance(v, (np.integer,)):
        return int(v)
    if isinstance(v, (bool, int, str)) or v is None:
        return v
    if isinstance(v, np.bool_):
        return bool(v)
    return str(v)


def close(a, b, tol=1e-6, stol=0.0):
    """equality of two scalars: exact for symbolic values (or within the absolute+relative tolerance stol when a path folds
    concrete float arithmetic, which rounds), relative tolerance `tol` for floats (replay oracle)"""
    if isinstance(a, (SR, Dual)) or isinstance(b, (SR, Dual)):
        if isinstance(a, float) and math.isnan(a) or isinstance(b, float) and math.isnan(b):
            return False
        if stol > 0:
            d = a - b
            bound = stol * (1 + abs(b)) if not isinstance(b, SR) else (abs(b) + 1) * stol
            return (d <= bound) & (d >= -bound)
        return a == b
    a, b = float(a), float(b)
    if math.isnan(a) or math.isnan(b):
        return math.isnan(a) and math.isnan(b)
    if math.isinf(a) or math.isinf(b):
        return a == b
    return abs(a - b) <= tol * max(1.0, abs(a), abs(b))


def unwrap(v):
    if isinstance(v, np.ndarray) and v.ndim == 0:
        return v.item()
    return v


def is_nan(v):
    v = unwrap(v)
    if isinstance(v, (SR, Dual, SB)):
        return False
    try:
        return math.isnan(float(v))
    except (TypeError, ValueError):
        return False


def cond_term(c):
    if isinstance(c, np.ndarray) and c.ndim == 0:
        c = c.item()
    if isinstance(c, SB):
        return c.e
    if isinstance(c, (bool, np.bool_)):
        return bool(c)
    return c


def run_case_concrete(case, Ic):
    """the real code on floats (no proxies); returns (O, err)"""
    try:
        with np.errstate(all='ignore'):
            return case.run(Ic), None
    except Unsupported:
        raise
    except Exception as e:
        return None, e


def eval_concrete(case, Ic):
    O, err = run_case_concrete(case, Ic)
    failed = []
    for label, c in case.spec(Ic, O, err):
        c = cond_term(c)
        if z3.is_expr(c):
            raise RuntimeError('concrete oracle produced a symbolic condition for %s' % label)
        if not bool(c):
            failed.append(label)
    return failed, O, err


def write_replay(case, Ic, failed, O, err):
    d = os.path.join(os.environ.get('VF_REPLAY_DIR') or os.path.join(ROOT, 'replays'), case.prop)
    os.makedirs(d, exist_ok=True)
    body = dict(property=case.prop, engine='pysym', case=case.name, module=case.__class__.__module__, params=getattr(case, 'params', None),
                inputs=jsonable(Ic), failed=failed, observed=jsonable(O) if O is not None else None, error=repr(err) if err else None)
    h = hashlib.sha1(json.dumps(body, sort_keys=True, default=str).encode()).hexdigest()[:12]
    p = os.path.join(d, '%s-%s.json' % (case.name.replace('/', '_').replace(' ', '_'), h))
    json.dump(body, open(p, 'w'), indent=1, sort_keys=True, default=str)
    return p


def explore_case(case, tier, seed, known_active):
    t0 = time.time()
    ex = Exec(None, timeout_ms=case.query_timeout_ms.get(tier, 10000), seed=seed)
    res = dict(case=case.name, paths=0, obligations=0, discharged=0, inconclusive=[], violations=[], known_hits={}, nontrivial=0,
               samples=[], error=None, nonrepro=0, labels={}, exceptions=0)
    budget = case.time_budget.get(tier, 60) * float(os.environ.get('VF_TIME_SCALE', '1'))
    deadline = t0 + budget
    confirmed_known = {}
    import importlib
    mods = case.modules()
    try:
        def body():
            I = case.inputs()
            State.I = I
            with core.patched(*mods):
                O = case.run(I)
            return O

        class State:
            I = None
            nassume = 0
        for path, out in core.explore(wrap_body(case, mods, State), ex=ex, deadline=deadline, max_paths=getattr(case, 'max_paths', 2000)):
            if path is None:
                res['inconclusive'].append({'reason': out if isinstance(out, str) else 'time-budget'})
                break
            O, err = out
            I = State.I
            res['paths'] += 1
            if err is not None:
                res['exceptions'] += 1
            try:
                sp = case.spec(I, O, err)
            except Unsupported:
                raise
            rng = getattr(path, 'int_range', None)
            if rng and err is None:
                # one obligation per recorded operation, in program order (the first one that can fail is the informative one)
                sp = list(sp) + [('no-fixed-width-integer-overflow[%d]' % k, core.sb(c)) for k, c in enumerate(rng)]
            for label, c in sp:
                c = cond_term(c)
                res['obligations'] += 1
                res['labels'][label] = res['labels'].get(label, 0) + 1
                if c is True:
                    res['discharged'] += 1
                    continue
                res['nontrivial'] += 1
                check_one(case, ex, path, I, label, c, res, known_active, confirmed_known, tier, deadline, State.nassume)
            if len(res['violations']) >= 3:
                break
    except Unsupported as e:
        res['error'] = 'unsupported: %s' % e
    except Exception as e:
        res['error'] = 'exception: %s\n%s' % (e, traceback.format_exc()[-1800:])
    res['queries'] = ex.stats.queries
    res['solver_time'] = round(ex.stats.solver_time, 2)
    res['wall'] = round(time.time() - t0, 2)
    return res


def wrap_body(case, mods, State):
    def body():
        try:
            I = case.inputs()
        except Unsupported:
            raise
        except Exception as e:
            raise Unsupported('harness error while building the inputs: %r' % (e,))
        State.I = I
        State.nassume = len(core.ST.path.pc)
        core.ST.path.nassume = State.nassume
        with core.patched(*mods):
            return case.run(I)
    return body


def leaf_env(I, Ic, env):
    """{symbol name: concrete value} for the symbolic leaves of I"""
    if isinstance(I, dict):
        for k in I:
            leaf_env(I[k], Ic[k], env)
    elif isinstance(I, (list, tuple)):
        for a, b in zip(I, Ic):
            leaf_env(a, b, env)
    elif isinstance(I, np.ndarray):
        for a, b in zip(I.flat, np.asarray(Ic).flat):
            leaf_env(a, b, env)
    elif isinstance(I, (SR, SI)):
        if z3.is_const(I.e):
            env[I.e.decl().name()] = Ic
    elif z3.is_expr(I) and z3.is_const(I):
        env[I.decl().name()] = Ic
    return env


def precondition_holds(path, nassume, I, Ic):
    """the assumptions made while building the inputs, evaluated on the concrete values with the real exp / log"""
    env = leaf_env(I, Ic, {})
    for c in path.pc[:nassume]:
        try:
            if not core.eval_term(c, env):
                return False
        except KeyError:
            continue      # mentions a symbol that is not an input (axiom instance): not a precondition
        except (ZeroDivisionError, ValueError, OverflowError):
            return False
    return True


def check_one(case, ex, path, I, label, c, res, known_active, confirmed_known, tier, deadline, nassume=0):
    neg = (not c) if isinstance(c, bool) else z3.Not(c)
    extra = []
    for kid, (labels, pred_c, pred_s) in confirmed_known.items():
        if label in labels or '*' in labels or any(label.startswith(l) for l in labels):
            if pred_s is not None:
                extra.append(z3.Not(pred_s(I)))
    tries = 0
    while True:
        if time.time() > deadline:
            res['inconclusive'].append({'reason': 'time-budget', 'label': label})
            return
        cs = ([neg] if neg is not True else []) + extra
        if neg is False:
            res['discharged'] += 1
            return
        r, m = ex.solver_check(path.pc + cs)
        if r == 'unsat':
            res['discharged'] += 1
            return
        if r == 'unknown' and getattr(path, 'heavy', None):
            # retry without the defining equations of the square roots (fewer hypotheses: `unsat` is still a proof)
            for keep_unlinked in (False, True):
                # second attempt: keep the equations of roots that no multiplicative law mentions
                light = [c for c in path.pc if c.get_id() not in path.heavy or (keep_unlinked and path.heavy[c.get_id()] not in path.sqrt_linked)]
                r2, _ = ex.solver_check(light + cs, want_model=False)
                if r2 == 'unsat':
                    res['discharged'] += 1
                    res['relaxed'] = res.get('relaxed', 0) + 1
                    return
        if r == 'unknown' and not isinstance(c, bool):
            # retry with the equality atoms of the claim cleared of denominators (a stronger claim: `unsat` is still a proof)
            from engine.pysym import ratform
            c2 = ratform.strengthen(c)
            if not z3.eq(c2, c):
                heavy = getattr(path, 'heavy', None) or {}
                for pcs in ([path.pc] + ([[a for a in path.pc if a.get_id() not in heavy]] if heavy else [])):
                    r2, _ = ex.solver_check(pcs + [z3.Not(c2)] + extra, want_model=False)
                    if r2 == 'unsat':
                        res['discharged'] += 1
                        res['relaxed'] = res.get('relaxed', 0) + 1
                        return
        if r == 'unknown' and nassume and tries == 0:
            # bug-finding fallback: a model of the INPUT assumptions and the negated claim alone (path decisions dropped).  Whatever path the
            # real code takes on these inputs, the candidate is judged by the concrete replay below, so this can only add confirmed violations.
            r3, m3 = ex.solver_check(path.pc[:nassume] + cs)
            if r3 == 'sat':
                Ic = concretize(I, m3)
                if precondition_holds(path, nassume, I, Ic):
                    failed, O, err = eval_concrete(case, Ic)
                    if failed and not any(kid in known_active and pred_c(Ic) for kid, labels, pred_c, pred_s in case.known):
                        rp = write_replay(case, Ic, failed, O, err)
                        res['violations'].append({'label': label, 'failed': failed, 'replay': rp, 'inputs': jsonable(Ic),
                                                  'observed': jsonable(O) if O is not None else repr(err)})
                        return
        if r == 'unknown':
            res['inconclusive'].append({'reason': 'solver-unknown', 'label': label})
            return
        m = nicer(ex, path, cs, I, m)
        Ic = concretize(I, m)
        if precondition_holds(path, nassume, I, Ic):
            failed, O, err = eval_concrete(case, Ic)
        else:
            failed, O, err = [], None, None     # the model relies on the EXP/LOG abstraction: outside the real precondition
        if failed:
            hit = None
            for k in case.known:
                kid, labels, pred_c, pred_s = k
                if kid in known_active and (label in labels or '*' in labels or any(f in labels for f in failed) or any(
                        label.startswith(l) for l in labels)) and pred_c(Ic):
                    hit = k
                    break
            if hit is not None:
                kid, labels, pred_c, pred_s = hit
                res['known_hits'][kid] = res['known_hits'].get(kid, 0) + 1
                if len(res['samples']) < 4:
                    res['samples'].append({'known_finding': kid, 'label': label, 'inputs': jsonable(Ic)})
                confirmed_known[kid] = (labels, pred_c, pred_s)
                if pred_s is None:
                    return          # the whole case lies in the known class
                extra.append(z3.Not(pred_s(I)))
                continue
            rp = write_replay(case, Ic, failed, O, err)
            res['violations'].append({'label': label, 'failed': failed, 'replay': rp, 'inputs': jsonable(Ic),
                                      'observed': jsonable(O) if O is not None else repr(err)})
            return
        tries += 1
        if tries >= (case.max_models if tier == 'quick' else 2 * case.max_models):
            res['nonrepro'] += 1
            res['inconclusive'].append({'reason': 'non-reproducing', 'label': label, 'inputs': jsonable(Ic)})
            return
        leaves = sym_leaves(I, [])
        if not leaves:
            return
        extra.append(z3.Or(*[l != m.eval(l, model_completion=True) for l in leaves]))


def nicer(ex, path, cs, I, m):
    leaves = [l for l in sym_leaves(I, []) if l.sort() == z3.RealSort()]
    if not leaves:
        return m
    for k in (3, 12):
        r, m2 = ex.solver_check(path.pc + cs + [z3.IsInt(v * (2 ** k)) for v in leaves], timeout_ms=2000)
        if r == 'sat':
            return m2
    return m


_CASES = None


def _task(i_tier_seed_known):
    i, tier, seed, known_active = i_tier_seed_known
    return i, explore_case(_CASES[i], tier, seed, known_active)


def run_cases(prop, cases, tier, seed):
    global _CASES
    from engine import known as known_mod
    _CASES = cases
    known_active = set(known_mod.active(prop).keys())
    work = [(i, tier, seed, known_active) for i in range(len(cases))]
    nproc = int(os.environ.get('VF_NPROC', '16'))
    results = []
    if nproc > 1 and len(work) > 1:
        with mp.get_context('fork').Pool(min(nproc, len(work))) as pool:
            for r in pool.imap_unordered(_task, work, chunksize=1):
                results.append(r)
    else:
        results = [_task(w) for w in work]
    part = dict(engine='pysym', families={}, obligations=0, discharged=0, inconclusive=[], violations=[], known_hits={}, paths=0, queries=0,
                solver_time=0.0, samples=[], errors=[], nontrivial=0, functions_encoded=[], nonrepro=0, validated=0, mismatches=[])
    for i, r in sorted(results, key=lambda x: x[0]):
        case = cases[i]
        part['families'][case.name] = dict(paths=r['paths'], obligations=r['obligations'], discharged=r['discharged'],
                                           inconclusive=len(r['inconclusive']), wall=r['wall'], exceptions=r['exceptions'])
        for k in ('obligations', 'discharged', 'paths', 'queries', 'nontrivial', 'nonrepro'):
            part[k] += r[k]
        part['solver_time'] += r['solver_time']
        for inc in r['inconclusive'][:30]:
            part['inconclusive'].append(dict(inc, case=case.name))
        for v in r['violations']:
            part['violations'].append(dict(v, family=case.name, property=prop))
        for k, n in r['known_hits'].items():
            part['known_hits'][k] = part['known_hits'].get(k, 0) + n
        if r['error']:
            part['errors'].append({'family': case.name, 'error': r['error']})
        if len(part['samples']) < 10:
            part['samples'].append({'case': case.name, 'paths': r['paths'], 'obligations': r['obligations'], 'discharged': r['discharged'],
                                    'labels': sorted(r['labels'])[:8], 'examples': r['samples'][:2]})
        part['functions_encoded'] += list(getattr(case, 'functions', [case.name]))
    part['functions_encoded'] = sorted(set(part['functions_encoded']))
    part['solver_time'] = round(part['solver_time'], 2)
    return part
