"""vf command line: check <Cxx> [--tier quick|thorough] | replay <file>"""
import argparse
import importlib
import os
import sys
import time
import warnings

from engine import run


def do_check(prop, tier, seed):
    t0 = time.time()
    h = importlib.import_module('harness.%s' % prop)
    def body(workdir):
        parts = []
        if getattr(h, 'FAMILIES', None):
            parts.append(run.run_llir(prop, h.FAMILIES, tier, seed, workdir))
        for fn in getattr(h, 'PARTS', []):
            parts.append(fn(tier, seed, workdir))
        return run.finish(prop, tier, seed, parts, t0, h.META)
    return run.with_workdir(body)


def main():
    warnings.simplefilter('ignore')
    repo = os.environ.get('VERIF_REPO')
    if repo:
        sys.path.insert(0, os.path.join(repo, 'src'))   # analyse a scratch copy instead of /repo
    ap = argparse.ArgumentParser(prog='vf')
    sub = ap.add_subparsers(dest='cmd', required=True)
    c = sub.add_parser('check')
    c.add_argument('prop')
    c.add_argument('--tier', default=os.environ.get('VERIF_TIER', 'quick'), choices=['quick', 'thorough'])
    r = sub.add_parser('replay')
    r.add_argument('file')
    a = ap.parse_args()
    seed = int(os.environ.get('VERIF_SEED', '0') or 0)
    if a.cmd == 'check':
        sys.exit(do_check(a.prop, a.tier, seed))
    if a.cmd == 'replay':
        from engine import replay
        sys.exit(replay.main(a.file))


if __name__ == '__main__':
    main()
