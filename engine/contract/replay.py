from engine.contracts import replay_main as main
