"""Check runner: executes the parts of a property check, aggregates evidence, prints verdict lines."""
import json
import multiprocessing as mp
import os
import shutil
import sys
import tempfile
import time

ROOT = os.path.normpath(os.path.join(os.path.dirname(__file__), '..'))
NPROC = int(os.environ.get('VF_NPROC', '16'))

_ctx = None
_fams = None
# wall-clock cap (s) of the engine-A part of a check; instances not finished by then are reported inconclusive(time-budget), never passed
WALL_CAP = {'thorough': 2400}


def _init_worker(workdir):
    global _ctx
    from engine.llir.harness import Ctx
    _ctx = Ctx(workdir)


def _llir_task(t):
    from engine.llir import harness
    fi, inst, tier, seed, known_active = t
    fam = _fams[fi]
    return fi, harness.explore_instance(_ctx, fam, inst, tier, seed, known_active)


def run_llir(prop, families, tier, seed, workdir):
    """returns a part summary for the given engine-A families"""
    global _fams
    from engine.llir import harness
    _fams = families
    known_active = harness.load_known(prop)
    tasks = []
    for fi, fam in enumerate(families):
        for inst in fam.instances(tier):
            tasks.append((fam.cost(inst), fi, inst))
    cap = WALL_CAP.get(tier)
    if os.environ.get('VF_WALL_CAP'):
        cap = float(os.environ['VF_WALL_CAP'])
    tasks.sort(key=lambda x: -x[0])    # largest first (makespan)
    if cap:
        for fam in families:
            fam._global_deadline = time.time() + cap
    work = [(fi, inst, tier, seed, known_active) for _, fi, inst in tasks]
    # build IR + drivers once in the parent so that workers inherit them (fork)
    ctx = harness.Ctx(workdir)
    t0 = time.time()
    for pkg in sorted({f.pkg for f in families}):
        ctx.mod(pkg)
        ctx.driver(pkg)
    global _ctx
    _ctx = ctx
    results = []
    if NPROC > 1 and len(work) > 1:
        with mp.get_context('fork').Pool(min(NPROC, len(work))) as pool:
            for r in pool.imap_unordered(_llir_task, work, chunksize=1):
                results.append(r)
    else:
        for w in work:
            results.append(_llir_task(w))
    part = dict(engine='llir', families={}, obligations=0, discharged=0, inconclusive=[], violations=[], known_hits={},
                paths=0, queries=0, solver_time=0.0, samples=[], errors=[], validated=0, validation_skipped=0,
                mismatches=[], nontrivial=0, functions_encoded=set(), bounds=[], nonrepro=0, build_s=round(time.time() - t0, 2))
    for fi, r in sorted(results, key=lambda x: (x[0], json.dumps(x[1]['inst'], sort_keys=True))):
        fam = families[fi]
        fs = part['families'].setdefault(fam.name, dict(kernel=fam.kernel, instances=0, paths=0, obligations=0, discharged=0,
                                                        inconclusive=0, wall=0.0, labels={}))
        fs['instances'] += 1
        fs['paths'] += r['paths']
        fs['obligations'] += r['obligations']
        fs['discharged'] += r['discharged']
        fs['inconclusive'] += len(r['inconclusive'])
        fs['wall'] = round(fs['wall'] + r['wall'], 2)
        for k, v in r['labels'].items():
            fs['labels'][k] = fs['labels'].get(k, 0) + v
        part['functions_encoded'].add('%s:%s' % (fam.pkg, fam.kernel))
        for k in ('obligations', 'discharged', 'paths', 'queries', 'validated', 'validation_skipped', 'nontrivial', 'nonrepro'):
            part[k] += r[k]
        part['solver_time'] += r['solver_time']
        for inc in r['inconclusive'][:50]:
            d = dict(inc)
            d['family'] = fam.name
            d['inst'] = r['inst']
            part['inconclusive'].append(d)
        for v in r['violations']:
            v = dict(v)
            v['family'] = fam.name
            v['inst'] = r['inst']
            v['property'] = fam.prop
            part['violations'].append(v)
        for k, n in r['known_hits'].items():
            part['known_hits'][k] = part['known_hits'].get(k, 0) + n
        if r['error']:
            part['errors'].append({'family': fam.name, 'inst': r['inst'], 'error': r['error']})
        for mm in r['mismatches']:
            part['mismatches'].append({'family': fam.name, 'inst': r['inst'], **mm})
        cc = r.get('cross') or (0, 0, [])
        part['cross_checked'] = part.get('cross_checked', 0) + cc[0]
        part['cross_agreed'] = part.get('cross_agreed', 0) + cc[1]
        for b in cc[2]:
            part['errors'].append({'family': fam.name, 'inst': r['inst'], 'error': 'solver disagreement: %s' % json.dumps(b)[:600]})
        if len(part['samples']) < 12:
            part['samples'].append({'family': fam.name, 'inst': r['inst'], 'paths': r['paths'], 'obligations': r['obligations'],
                                    'discharged': r['discharged'], 'wall_s': r['wall'], 'examples': r['samples'][:2]})
    part['functions_encoded'] = sorted(part['functions_encoded'])
    part['solver_time'] = round(part['solver_time'], 2)
    return part


def finish(prop, tier, seed, parts, t0, meta):
    """merge parts, write evidence, print verdict lines, return exit code"""
    from engine import known as known_mod
    ev_path = os.path.join(os.environ.get('VF_EVIDENCE_DIR') or os.path.join(ROOT, 'evidence'), '%s.json' % prop)
    os.makedirs(os.path.dirname(ev_path), exist_ok=True)
    violations, errors, mismatches, inconclusive = [], [], [], []
    known_hits = {}
    tot = dict(obligations=0, discharged=0, paths=0, queries=0, nontrivial=0, validated=0)
    solver_time = 0.0
    samples = []
    funcs = []
    per_engine = []
    for p in parts:
        violations += p.get('violations', [])
        errors += p.get('errors', [])
        mismatches += p.get('mismatches', [])
        inconclusive += p.get('inconclusive', [])
        for k, n in p.get('known_hits', {}).items():
            known_hits[k] = known_hits.get(k, 0) + n
        for k in tot:
            tot[k] += p.get(k, 0)
        solver_time += p.get('solver_time', 0.0)
        samples += p.get('samples', [])
        funcs += p.get('functions_encoded', [])
        per_engine.append({k: v for k, v in p.items() if k in ('engine', 'families', 'build_s', 'conditions', 'harnesses', 'validation_skipped', 'nonrepro', 'detail')})
    known_entries = known_mod.load_all()
    for kid, n in sorted(known_hits.items()):
        e = known_entries.get(kid, {})
        print('KNOWN-FINDING: property=%s %s [%s; hit on %d paths/obligations]' % (prop, e.get('what', kid), kid, n))
    for v in violations:
        print('VIOLATION property=%s replay=%s' % (prop, v['replay']))
        print('  family=%s label=%s inputs=%s' % (v.get('family'), v.get('label'), json.dumps(v.get('inputs'))[:400]))
    for e in errors[:10]:
        print('HARNESS-ERROR %s: %s' % (e.get('family'), str(e.get('error'))[:800]), file=sys.stderr)
    for m in mismatches[:10]:
        print('TRANSLATOR-MISMATCH %s' % json.dumps(m)[:600], file=sys.stderr)
    wall = time.time() - t0
    inc_summary = {}
    for i in inconclusive:
        inc_summary[i.get('reason', '?')] = inc_summary.get(i.get('reason', '?'), 0) + 1
    ev = dict(
        property_id=prop, tier=tier, seed=seed, level='other', wall_s=round(wall, 2), violations=len(violations),
        assumptions=meta.get('assumptions', []),
        coverage=dict(
            explanation=meta.get('explanation', ''),
            functions_encoded=sorted(set(funcs)),
            bounds=meta.get('bounds', []),
            outside_claim=meta.get('outside', []),
            obligations=tot['obligations'], discharged=tot['discharged'],
            inconclusive=len(inconclusive), inconclusive_by_reason=inc_summary,
            inconclusive_samples=inconclusive[:8],
            paths=tot['paths'], solver_queries=tot['queries'], solver_time_s=round(solver_time, 2),
            evaluations=max(tot['queries'], tot['obligations'], 1),
            distinct_nontrivial=tot['nontrivial'],
            rule='one case = one feasible path of the real code under symbolic inputs x one assertion of the specification '
                 'whose condition is not syntactically true on that path (distinct by construction: path conditions are disjoint)',
            translator_validation=dict(cases=tot['validated'], mismatches=len(mismatches)),
            cross_solver=dict(sampled_queries_rechecked_with_z3_4_8_12=sum(p.get('cross_checked', 0) for p in parts),
                              agreed=sum(p.get('cross_agreed', 0) for p in parts)),
            known_findings_hit=known_hits,
            samples=samples[:12] or [{'note': 'no samples'}],
            per_engine=per_engine,
            stubs=meta.get('stubs', []),
            exhaustive=False,
        ))
    with open(ev_path, 'w') as fh:
        json.dump(ev, fh, indent=1, sort_keys=True, default=str)
    print('%s tier=%s: %d obligations, %d discharged, %d inconclusive %s, %d paths, %d solver queries (%.1fs solver), '
          '%d known-finding hits, %d violations, wall %.1fs' % (prop, tier, tot['obligations'], tot['discharged'],
                                                               len(inconclusive), json.dumps(inc_summary), tot['paths'], tot['queries'], solver_time,
                                                               sum(known_hits.values()), len(violations), wall))
    # a violation has been replayed on the real code: it is reported (exit 1) even if another part of the check hit a harness error;
    # a harness error without any confirmed violation is exit 2 (the check is broken, nothing it says is a pass)
    if violations:
        return 1
    if errors or mismatches:
        return 2
    return 0


def with_workdir(fn):
    d = tempfile.mkdtemp(prefix='vf_')
    try:
        return fn(d)
    finally:
        shutil.rmtree(d, ignore_errors=True)
